#!/venv/bin/python
"""Regenerates MANIFEST.json from the table below (one row per implemented check)."""
import json, os, sys
HERE = os.path.dirname(os.path.dirname(os.path.abspath(__file__)))
sys.path.insert(0, HERE)
ALL = [f"C{i:02d}" for i in range(1, 21)]
# id: (category, technique, text, note, design_ref)
T = {}
def reg(pid, cat, tech, text, note, ref):
    T[pid] = (cat, tech, text, note, ref)

exec(open(os.path.join(HERE, "tools", "manifest_rows.py")).read())

checks = []
for pid in ALL:
    if pid not in T or not os.path.exists(os.path.join(HERE, "vf", "props", pid.lower() + ".py")):
        continue
    cat, tech, text, note, ref = T[pid]
    checks.append({
        "property_id": pid,
        "quick_cmd": f"./check {pid} --tier quick",
        "thorough_cmd": f"./check {pid} --tier thorough",
        "evidence_file": f"/verif/evidence/{pid}.json",
        "replay_cmd_template": f"./check {pid} --replay {{path}}",
        "engine": "vf",
        "level_claimed": {"category": cat, "text": text, "design_ref": ref},
        "level_note": note,
        "technique": tech,
    })
na = [{"property_id": p, "reason": "check not built yet in this session (planned in DESIGN.md §5); not claimed until it exists"}
      for p in ALL if p not in {c["property_id"] for c in checks}]
m = {
    "version": 1,
    "setup_cmd": "./setup.sh",
    "hooks": {
        "guard": "CMINX_VERIF",
        "enable": "no source hooks in /repo: every monitor is installed from the harness process (module-attribute wrappers, sys.addaudithook, os.scandir replacement, argv shim); workers set CMINX_VERIF=1 and import /repo/src through PYTHONPATH",
        "baseline_off_cmd": "cd /repo && /venv/bin/python -m pytest -ra -q -p no:cacheprovider --timeout=900 --continue-on-collection-errors",
        "source_commits": [],
        "add_only": True,
    },
    "engines": [{"name": "vf", "path": "/verif/vf", "serves_properties": [c["property_id"] for c in checks],
                 "kind_free_text": "runtime monitoring: generated/hostile/fault-injected workloads executed by the real CMinx code under boundary monitors, decided by reference-model, metamorphic and differential oracles"}],
    "checks": checks,
    "not_applicable": na,
    "notes": "All checks: ./check <ID> --tier quick|thorough, honour VERIF_SEED; exit 0 held / 1 violation / 2 inconclusive. One worker in sixteen runs its share of the cases under PYTHONOPTIMIZE (1 on odd seeds, 2 on even ones); entry-level checks send 15% of their cases through cminx.main (-o and stdout). Self-tests: selftest/run_seeded.sh (every kept seeded change must still be caught), selftest/sweep.sh <tier> <seeds> (unchanged tree must stay silent). See DESIGN.md, section 9.",
}
json.dump(m, open(os.path.join(HERE, "MANIFEST.json"), "w"), indent=1)
print("MANIFEST ok:", len(checks), "checks;", len(na), "not claimed")
