#!/usr/bin/env python3
"""Validate MANIFEST.json and evidence/*.json against the schemas (run with python3-vt)."""
import json, glob, sys, jsonschema
ok = True
m = json.load(open("/verif/MANIFEST.json"))
jsonschema.validate(m, json.load(open("/root/.vp/MANIFEST.schema.json")))
es = json.load(open("/root/.vp/EVIDENCE.schema.json"))
for f in sorted(glob.glob("/verif/evidence/*.json")):
    try:
        jsonschema.validate(json.load(open(f)), es)
    except Exception as e:
        ok = False
        print("INVALID", f, str(e)[:300])
print("validated manifest +", len(glob.glob('/verif/evidence/*.json')), "evidence files", "OK" if ok else "FAILED")
sys.exit(0 if ok else 1)
