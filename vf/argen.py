"""CMake argument forms x characters that are special elsewhere (for C05/C06). Every generated argument is valid
CMake and not a legacy form."""

SAFE = list("abcxyzABC0189_-./:;=+*?!~%^&|,<>@'") + ["é", "日本", "✓", "ß"]
ESC = ["\\ ", "\\(", "\\)", "\\#", '\\"', "\\\\", "\\$", "\\@", "\\^", "\;", "\\t", "\\n", "\\r", "\\[", "\\]", "\\{", "\\}", "\\'"]
# characters that str.splitlines() treats as line boundaries but CMake does not
ODD = ["\x0c", "\x0b", "\x1c", "\x1d", "\x1e", "\x85", "\u2028", "\u2029"]
REFS = ["${x}", "$ENV{HOME}", "${${y}}", "${a_b}", "$<TARGET:x>", "$", "$CACHE{z}", "${x}${y}"]


def unquoted(r):
    n = r.randint(1, 8)
    out = []
    for i in range(n):
        c = r.random()
        if c < 0.6:
            ch = r.choice(SAFE)
            if i == 0 and ch in "=[":
                ch = "a"
            out.append(ch)
        elif c < 0.8:
            out.append(r.choice(ESC))
        elif c < 0.9:
            out.append(r.choice(REFS))
        else:
            out.append(r.choice(["[", "]", "[a]", "a[", "]]", "[[", "="]) if i > 0 else "a")
    s = "".join(out)
    # '$(' would be a legacy make-style reference; '${' must stay well formed
    s = s.replace("$(", "$_(").replace("$\\(", "$_\\(")
    if "${" in s or "$ENV{" in s or "$CACHE{" in s or "$<" in s:
        # keep only references that were inserted whole
        pass
    for bad in ("$é", ):
        s = s.replace(bad, "é")
    return s


def fix_dollar(s):
    """'$' directly followed by '{' only in well-formed references (inserted whole) -- break accidental ones."""
    out = []
    i = 0
    while i < len(s):
        if s[i] == "$" and i + 1 < len(s) and s[i + 1] == "{":
            j = s.find("}", i)
            inner = s[i + 2:j] if j > 0 else None
            if inner is None or not all(ch.isalnum() or ch in "_${}" for ch in inner):
                out.append("$_")
                i += 1
                continue
        out.append(s[i])
        i += 1
    return "".join(out)


def quoted(r):
    n = r.randint(0, 10)
    out = []
    for _ in range(n):
        c = r.random()
        if c < 0.5:
            out.append(r.choice(SAFE + [" ", "  ", "(", ")", "#", "[", "]", "]]", "[[", "\t", "#[[", "#]]", "[=["]))
        elif c < 0.65:
            out.append(r.choice(ESC))
        elif c < 0.75:
            out.append(r.choice(REFS))
        elif c < 0.85:
            out.append("\n")
        elif c < 0.93:
            out.append("\\\n")
        else:
            out.append(r.choice(["é", "日本語", "✓"] + ODD))
    return '"' + "".join(out) + '"'


def bracket(r):
    lvl = r.randint(0, 3)
    pieces = [" ", "a", "]", "[", "]]", "]=]", "]==]", "[[", "[=[", "\n", '"', "#", "(", ")", "\\", "\\n", "${x}", ";", "é", "x y",
              "#[[", "]]]"] + ODD
    n = r.randint(0, 8)
    s = "".join(r.choice(pieces) for _ in range(n))
    close = "]" + "=" * lvl + "]"
    while close in s:
        s = s.replace(close, "]" + "-" * max(lvl, 1) + "]")
    # the closer must not be completed by the content's tail + the closing delimiter
    while (s + close).find(close) < len(s):
        s = s[:-1]
    if r.random() < 0.2:
        s = "\n" + s
    return "[" + "=" * lvl + "[" + s + close


def any_arg(r, depth=0):
    c = r.random()
    if c < 0.35:
        return fix_dollar(unquoted(r))
    if c < 0.6:
        return fix_dollar(quoted(r))
    if c < 0.8:
        return bracket(r)
    if c < 0.9 or depth >= 3:
        return r.choice(["ident", "AND", "x1", "_u", "NAME"])
    return [any_arg(r, depth + 1) for _ in range(r.randint(0, 3))]


def render_args(r, args, comments=True):
    """Argument list text with separators (space/tab/newline) and comments adjacent to arguments."""
    out = []
    for a in args:
        sep = r.choice([" ", " ", "  ", "\n", "\t", "\n    ", " \n"])
        if comments and r.random() < 0.15:
            sep += r.choice(["# line comment ) \" (\n", "#[[ bracket ) comment ]] ", "#[=[ ]] \" ]=]\n", "#\n", "#[==x\n",
                             "# odd " + r.choice(ODD) + " set(phantom 1) \" (\n", "#[[ odd " + r.choice(ODD) + " ]] "])
        out.append(sep)
        if isinstance(a, list):
            out.append("(" + render_args(r, a, comments) + r.choice(["", " ", "\n"]) + ")")
        else:
            out.append(a)
    return "".join(out)
