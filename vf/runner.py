"""Running the real CMinx code of the tree under test, in-process and as a fresh CLI process,
with the boundary observations the checks need (captured stdout, exit status, log records,
the exception that escaped and where it was raised)."""
import contextlib
import io
import logging
import os
import shutil
import subprocess
import sys
import tempfile
import traceback

from .core import repo_root, PY, GUARD

_cminx = None


def cminx():
    """Import cminx from the tree under test and make sure that is really what was imported."""
    global _cminx
    if _cminx is None:
        if os.environ.get(GUARD) != "1":
            raise RuntimeError("interposition layer refuses to load outside a check")
        src = os.path.join(repo_root(), "src")
        if sys.path[0] != src:
            sys.path.insert(0, src)
        import cminx as m
        got = os.path.realpath(m.__file__)
        if not got.startswith(src + os.sep):
            raise RuntimeError(f"imported cminx from {got}, expected below {src}")
        logging.getLogger("cminx").addHandler(logging.NullHandler())
        _cminx = m
    return _cminx


class LogCatcher(logging.Handler):
    def __init__(self):
        super().__init__(level=logging.DEBUG)
        self.records = []

    def emit(self, record):
        if record.levelno >= logging.WARNING:
            try:
                self.records.append((record.levelname, record.getMessage()[:300]))
            except Exception:
                self.records.append((record.levelname, "<unformattable>"))


class Outcome:
    def __init__(self):
        self.ok = False
        self.exc = None           # exception object that escaped
        self.exc_where = None     # "<file>:<function>" of the innermost cminx/antlr frame
        self.exit_code = None     # for SystemExit
        self.stdout = ""
        self.logs = []
        self.value = None

    def crash_class(self):
        if self.exc is None:
            return None
        return f"crash:{type(self.exc).__name__}@{self.exc_where}"


def _where(tb):
    where = None
    for fr, _ in traceback.walk_tb(tb):
        fn = fr.f_code.co_filename
        if "/cminx/" in fn or "/antlr4/" in fn or "/confuse/" in fn or "/pathspec/" in fn:
            where = f"{os.path.basename(fn)}:{fr.f_code.co_name}"
    return where


_yaml_cache = {}


def default_settings_dict():
    import copy
    import yaml
    cminx()
    path = os.path.join(repo_root(), "src", "cminx", "config_default.yaml")
    key = (path, os.stat(path).st_mtime_ns)
    if key not in _yaml_cache:
        with open(path) as f:
            _yaml_cache[key] = yaml.safe_load(f)
    y = copy.deepcopy(_yaml_cache[key])
    inp = dict(y["input"])
    inp.setdefault("exclude_filters", [])
    out = dict(y.get("output") or {})
    out.setdefault("directory", None)
    rst = dict(y["rst"])
    rst.setdefault("prefix", None)
    return {"input": inp, "output": out, "logging": y["logging"], "rst": rst}


def make_settings(input=None, rst=None, output=None):
    """Settings object as the command line would build it from the packaged defaults
    (through the real dict_to_settings), with overrides per section."""
    from cminx.config import dict_to_settings
    d = default_settings_dict()
    d["input"].update(input or {})
    d["rst"].update(rst or {})
    d["output"].update(output or {})
    st = dict_to_settings(d)
    try:
        st._vf_overrides = {"input": dict(input or {}), "rst": dict(rst or {}), "output": dict(output or {})}
    except Exception:      # noqa: BLE001 - a frozen/slotted Settings class: the pipeline modes then fall back to the Documenter
        pass
    return st


# Which way document_text() takes through CMinx for the current case. "documenter": the real Documenter is called directly
# (fast path). "main-o": the text goes through cminx.main([file, -s <settings file>, -o <dir>]) and the page is read back
# from the output directory. "main-stdout": through cminx.main([file, -s ...]) without -o; the page is what was printed.
# core.py chooses the mode from the case index (entry-level checks only), so a replay takes the same way.
_DOC_DIR = None
PIPELINE = "documenter"
PIPELINE_STATS = {"documenter": 0, "main-o": 0, "main-stdout": 0}


def pipeline_for(idx):
    return {7: "main-o", 13: "main-o", 17: "main-stdout"}.get(idx % 20, "documenter")


def _through_main(text, settings, stem, encoding, newline, stdout_mode):
    import yaml
    with sandbox() as sb:
        src = os.path.join(sb, "in", stem + ".cmake")
        os.makedirs(os.path.dirname(src))
        with open(src, "w", encoding=encoding, newline=newline) as f:
            f.write(text)
        home = os.path.join(sb, "home")
        os.makedirs(os.path.join(home, ".config", "cminx"))
        argv = [src]
        ov = getattr(settings, "_vf_overrides", None) if settings is not None else None
        if ov and any(ov.values()):
            # the settings reach CMinx through a -s file or (two cases in five) through the per-user configuration file
            as_user = len(text) % 5 < 2
            cfg = os.path.join(home, ".config", "cminx", "config.yaml") if as_user else os.path.join(sb, "cfg.yaml")
            with open(cfg, "w", encoding="utf-8") as f:
                yaml.safe_dump({k: v for k, v in ov.items() if v}, f, allow_unicode=True)
            if not as_user:
                argv += ["-s", cfg]
            PIPELINE_STATS["settings-via-user-file" if as_user else "settings-via-s-file"] = \
                PIPELINE_STATS.get("settings-via-user-file" if as_user else "settings-via-s-file", 0) + 1
        out = os.path.join(sb, "out")
        if not stdout_mode:
            argv += ["-o", out]
        o = run_main(argv, cwd=sb, home=home)
        import re as _re
        diag = _re.search(r"(?m)^\d{4}-\d\d-\d\d \d\d:\d\d:\d\d,\d{3} - [\w.]+ - (WARNING|ERROR|CRITICAL) - ", o.stdout or "")
        if stdout_mode and o.ok and (o.logs or diag):
            # the input triggered diagnostics (e.g. a dangling doccomment): CMinx prints them to standard output as well,
            # which C18 allows. The printed text is then not just the page -- take the -o way instead.
            PIPELINE_STATS["main-stdout"] -= 1
            PIPELINE_STATS["main-o"] += 1
            stdout_mode = False
            argv += ["-o", out]
            o = run_main(argv, cwd=sb, home=home)
        if o.ok:
            if stdout_mode:
                # print() appends one newline to the page
                o.value = o.stdout[:-1] if o.stdout.endswith("\n") else o.stdout
            else:
                pg = os.path.join(out, stem + ".rst")
                if os.path.exists(pg):
                    with open(pg, encoding="utf-8", newline="") as f:
                        o.value = f.read()
                else:
                    o.ok = False
                    o.exc = FileNotFoundError(f"cminx.main wrote no page {stem}.rst (files: {sorted(os.listdir(out)) if os.path.isdir(out) else None})")
                    o.exc_where = "main-o:page-missing"
        return o


def guarded(fn, *a, **kw):
    """Call into CMinx; anything that escapes is recorded, not propagated."""
    o = Outcome()
    catcher = LogCatcher()
    root = logging.getLogger()
    cl = logging.getLogger("cminx")
    root.addHandler(catcher)
    cl.addHandler(catcher)
    buf = io.StringIO()
    old_out = sys.stdout
    sys.stdout = buf
    try:
        o.value = fn(*a, **kw)
        o.ok = True
    except SystemExit as e:
        o.exit_code = e.code
        o.exc = None
    except RecursionError as e:
        o.exc, o.exc_where = e, "recursion"
    except Exception as e:          # noqa: BLE001 - this is the monitor
        o.exc = e
        o.exc_where = _where(e.__traceback__)
    finally:
        sys.stdout = old_out
        root.removeHandler(catcher)
        cl.removeHandler(catcher)
    o.stdout = buf.getvalue()
    o.logs = catcher.records
    return o


def document_text(text, settings=None, title="T", module="M", tmpdir=None, encoding="utf-8", newline=""):
    """Write `text` to a file and run the real Documenter on it. Returns (Outcome, documenter)."""
    cminx()
    from cminx.documenter import Documenter
    mode = PIPELINE
    # the CLI derives title and module name from the file name: only cases whose requested title and module name can be
    # had that way take the long way round
    stem = module if module != "M" else title
    # settings="api-default": the Documenter is constructed without a settings argument, as the project's own examples do
    api_default = isinstance(settings, str) and settings == "api-default"
    if api_default:
        settings, mode = None, "documenter"
    if mode != "documenter" and tmpdir is None and stem.isidentifier() and (settings is None or hasattr(settings, "_vf_overrides")):
        PIPELINE_STATS[mode] += 1
        return _through_main(text, settings, stem, encoding, newline, mode == "main-stdout"), None
    PIPELINE_STATS["documenter"] += 1
    # one file per worker process, rewritten for every document (as an editor does): whatever CMinx may remember about a
    # path, its size or its time stamp from an earlier call is put to the test by the next one
    global _DOC_DIR
    if tmpdir is None:
        if _DOC_DIR is None or not os.path.isdir(_DOC_DIR):
            _DOC_DIR = tempfile.mkdtemp(prefix="vfdoc_")
            import atexit
            atexit.register(shutil.rmtree, _DOC_DIR, True)
    d = tmpdir or _DOC_DIR
    path = os.path.join(d, "m.cmake")
    try:
        with open(path, "w", encoding=encoding, newline=newline) as f:
            f.write(text)
        holder = {}

        def go():
            st = settings if settings is not None else make_settings()
            other = None
            PIPELINE_STATS["documenter_calls"] = PIPELINE_STATS.get("documenter_calls", 0) + 1
            if tmpdir is None and PIPELINE_STATS["documenter_calls"] % 4 == 1:
                # the public API used by a program that prepares several documenters before it processes any of them: another
                # Documenter (for another file) is constructed first and processed afterwards
                op = os.path.join(d, "interloper.cmake")
                if not os.path.exists(op):
                    with open(op, "w") as f2:
                        f2.write("#[[[\n# interloper doc line\n#]]\nfunction(interloper_fn_xyz a)\nendfunction()\ncpp_class(InterloperCls)\ncpp_end_class()\n")
                other = Documenter(op, "InterloperT", "InterloperM", st)
                PIPELINE_STATS["documenters_constructed_in_between"] = PIPELINE_STATS.get("documenters_constructed_in_between", 0) + 1
            if api_default:
                doc = Documenter(path, title, module)
                PIPELINE_STATS["documenters_with_the_default_settings_object"] = PIPELINE_STATS.get("documenters_with_the_default_settings_object", 0) + 1
            else:
                doc = Documenter(path, title, module, st)
            holder["doc"] = doc
            first = other is not None and PIPELINE_STATS["documenter_calls"] % 8 == 1
            if first:
                other.process()          # (the other one is processed first every second time)
            w = doc.process()
            text_ = str(w)
            if other is not None and not first:
                other.process()
            return text_
        o = guarded(go)
        return o, holder.get("doc")
    finally:
        pass


def reset_logging():
    """cminx.main() reconfigures logging globally on every call; keep handlers from piling up."""
    for name in ("cminx", ""):
        lg = logging.getLogger(name) if name else logging.getLogger()
        for h in list(lg.handlers):
            if not isinstance(h, (LogCatcher, logging.NullHandler)):
                lg.removeHandler(h)


def run_main(argv, cwd=None, home=None, env=None):
    """cminx.main(argv) in-process with cwd/HOME switched for the duration of the call. `env`: further environment
    variables for the call (e.g. CMINXDIR, XDG_CONFIG_HOME, XDG_CONFIG_DIRS: where the per-user configuration lives)."""
    m = cminx()
    old_cwd = os.getcwd()
    old_env = {k: os.environ.get(k) for k in ("HOME", "XDG_CONFIG_HOME", "XDG_CONFIG_DIRS", "CMINXDIR")}
    try:
        if cwd:
            os.chdir(cwd)
        if home:
            os.environ["HOME"] = home
            os.environ.pop("XDG_CONFIG_HOME", None)
            os.environ["XDG_CONFIG_DIRS"] = os.path.join(home, "no-such-xdg")
            os.environ.pop("CMINXDIR", None)
        for k_, v_ in (env or {}).items():
            os.environ[k_] = v_
        o = guarded(m.main, list(argv))
    finally:
        os.chdir(old_cwd)
        for k, v in old_env.items():
            if v is None:
                os.environ.pop(k, None)
            else:
                os.environ[k] = v
        reset_logging()
    return o


def run_cli(argv, cwd=None, home=None, env_extra=None, timeout=120, entry="console"):
    """Fresh interpreter running the working tree's command line entry point: entry="console" is what the installed
    console script does (cminx:main), entry="main.py" runs <repo>/src/main.py, the script the CMake build freezes into the
    `cminx` executable that cminx_gen_rst() calls."""
    env = {k: v for k, v in os.environ.items() if k not in ("XDG_CONFIG_HOME", "CMINXDIR")}
    env["PYTHONPATH"] = os.path.join(repo_root(), "src")
    env["PYTHONWARNINGS"] = "ignore"
    env["PYTHONDONTWRITEBYTECODE"] = "1"
    if home:
        env["HOME"] = home
        env["XDG_CONFIG_DIRS"] = os.path.join(home, "no-such-xdg")
    env.update(env_extra or {})
    how = [PY, "-c", "import sys; from cminx import main; main(sys.argv[1:])"] if entry == "console" else \
        [PY, os.path.join(repo_root(), "src", "main.py")]
    p = subprocess.run(how + list(argv), cwd=cwd, env=env, capture_output=True, timeout=timeout)
    return p.returncode, p.stdout.decode("utf-8", "replace"), p.stderr.decode("utf-8", "replace")


def run_cli_pty(argv, cwd=None, home=None, env_extra=None, timeout=120, entry="console", on_tty=("stdout",), cols=40, rows=12):
    """Like run_cli(), but the named standard streams of the child are attached to a pseudo terminal of `cols` x `rows`
    characters (output post-processing switched off, so what is read back is what was written). Returns
    (exit status, text written to the terminal, stderr text if it was not on the terminal)."""
    import fcntl
    import pty
    import struct
    import termios
    env = {k: v for k, v in os.environ.items() if k not in ("XDG_CONFIG_HOME", "CMINXDIR", "COLUMNS", "LINES")}
    env["PYTHONPATH"] = os.path.join(repo_root(), "src")
    env["PYTHONWARNINGS"] = "ignore"
    env["PYTHONDONTWRITEBYTECODE"] = "1"
    env["TERM"] = "xterm"
    if home:
        env["HOME"] = home
        env["XDG_CONFIG_DIRS"] = os.path.join(home, "no-such-xdg")
    env.update(env_extra or {})
    master, slave = pty.openpty()
    try:
        fcntl.ioctl(slave, termios.TIOCSWINSZ, struct.pack("HHHH", rows, cols, 0, 0))
        attrs = termios.tcgetattr(slave)
        attrs[1] &= ~termios.OPOST
        termios.tcsetattr(slave, termios.TCSANOW, attrs)
        how = [PY, "-c", "import sys; from cminx import main; main(sys.argv[1:])"] if entry == "console" else \
            [PY, os.path.join(repo_root(), "src", "main.py")]
        p = subprocess.Popen(how + list(argv), cwd=cwd, env=env, stdin=subprocess.DEVNULL,
                             stdout=slave if "stdout" in on_tty else subprocess.PIPE,
                             stderr=slave if "stderr" in on_tty else subprocess.PIPE)
        os.close(slave)
        slave = None
        import select
        import time as _t
        chunks, other = [], {}
        deadline = _t.time() + timeout
        while True:
            r, _, _ = select.select([master], [], [], 0.2)
            if r:
                try:
                    data = os.read(master, 65536)
                except OSError:
                    data = b""
                if not data:
                    break
                chunks.append(data)
            elif p.poll() is not None:
                # drain what is left
                try:
                    while True:
                        r2, _, _ = select.select([master], [], [], 0.05)
                        if not r2:
                            break
                        data = os.read(master, 65536)
                        if not data:
                            break
                        chunks.append(data)
                except OSError:
                    pass
                break
            if _t.time() > deadline:
                p.kill()
                break
        out_pipe = p.stdout.read() if p.stdout else b""
        err_pipe = p.stderr.read() if p.stderr else b""
        rc = p.wait(timeout=10)
        return rc, b"".join(chunks).decode("utf-8", "replace"), (err_pipe or out_pipe).decode("utf-8", "replace")
    finally:
        if slave is not None:
            os.close(slave)
        os.close(master)


@contextlib.contextmanager
def sandbox(prefix="vfsb_"):
    d = tempfile.mkdtemp(prefix=prefix)
    try:
        yield os.path.realpath(d)
    finally:
        shutil.rmtree(d, ignore_errors=True)
