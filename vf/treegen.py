"""Directory trees for the file-system properties, and the reference walk (C13's sentence as code)."""
import os

DIRN = ["sub", "aa", "ab", "ac", "core", "my-mod", "v1.2", "tests", "docs_src", "x.y", "CMakeStuff", "e_dir", "zz", "mods.cmake", "my dir", "dïr", "cafe\u0301", ".ci", ".tools"]
STEMS = ["a", "b", "top", "e1", "e2", "e3", "find-foo", "a.b", "Upper", "z_last", "m", "e4", "util", "pre.cmake.post", "x.cmake", "with space", "ünï-ß", "e\u0301cole", ".hidden", ".ci_mod"]
NONCMAKE = ["README.md", "x.cmake.in", "x.cmake.bak", "foo.cmakex", "Makefile", "cmake", "notes.txt", "cmake.txt",
            "CMakeLists.txt", "a.cmake~"]


class Tree:
    def __init__(self):
        self.dirs = {""}
        self.files = {}        # rel path -> text
        self.links = set()     # rel paths (keys of files) that are written as symbolic links to regular files kept elsewhere
        self.dirlinks = {}     # rel path of a symbolic link to a directory -> rel path of its target directory (of this tree)
        self.virtual = set()   # rel paths (directories and files) that exist only through a FOLLOWED directory link
        self.follow = False    # whether the run is expected to follow directory links (input.follow_symlinks)

    def add_dirlink(self, link, target, follow):
        """`link` becomes a symbolic link to the directory `target`. With follow=True the tree also lists everything that is
        reachable through the link (same texts as below the target); with follow=False the link is no directory of the tree."""
        self.dirlinks[link] = target
        self.follow = follow
        if not follow:
            return
        for d in sorted(self.dirs):
            if d == target or d.startswith(target + "/"):
                v = link + d[len(target):]
                self.dirs.add(v)
                self.virtual.add(v)
        for f, t in sorted(self.files.items()):
            if f.startswith(target + "/"):
                v = link + f[len(target):]
                self.files[v] = t
                self.virtual.add(v)

    def subdirs(self, d):
        return sorted(x for x in self.dirs if x != "" and os.path.dirname(x) == d)

    def files_of(self, d):
        return sorted(os.path.basename(f) for f in self.files if os.path.dirname(f) == d)

    def write(self, root):
        for d in sorted(self.dirs):
            if d not in self.virtual:
                os.makedirs(os.path.join(root, d), exist_ok=True)
        for link, target in sorted(self.dirlinks.items()):
            lp = os.path.join(root, link)
            if not os.path.lexists(lp):
                os.symlink(os.path.relpath(os.path.join(root, target), os.path.dirname(lp)), lp)
        store = os.path.join(os.path.dirname(root), "link_targets_of_" + os.path.basename(root))
        for n_, (f, t) in enumerate(sorted(self.files.items())):
            dest = os.path.join(root, f)
            if f in self.virtual:
                continue
            if f in self.links:
                os.makedirs(store, exist_ok=True)
                real = os.path.join(store, f"t{n_}_" + os.path.basename(f))
                with open(real, "w", encoding="utf-8", newline="") as fh:
                    fh.write(t)
                if os.path.lexists(dest):
                    os.remove(dest)
                os.symlink(real, dest)
                continue
            if os.path.islink(dest):
                os.remove(dest)
            with open(dest, "w", encoding="utf-8", newline="") as fh:
                fh.write(t)

    def shape(self):
        def sh(d):
            return [sorted(os.path.splitext(f)[1].lower() for f in self.files_of(d)), [sh(s) for s in self.subdirs(d)]]
        return sh("")


def cmake_text(rel, rng=None, rich=False):
    ident = "".join(c if c.isalnum() else "_" for c in rel)
    t = f"#[[[\n# Documented function of {rel}\n#\n# :param x: a parameter\n#]]\nfunction(fn_{ident} x)\nendfunction()\n"
    if rich:
        t += f"#[[[\n# A variable of {rel}\n#]]\nset(VAR_{ident} \"v\" 2)\nmacro(mc_{ident})\nendmacro()\n" \
             f"option(OPT_{ident} \"help\" ON)\n" \
             f"#[[[\n# Where to get it (a value without a single blank, wider than a narrow terminal).\n#]]\n" \
             f"set(URL_{ident} \"https://example.org/downloads/releases/2026/10/03/a-very-long-file-name-without-blanks-{ident}.tar.gz\")\n"
    return t


def gen_tree(rng, max_depth=4, p_sub=0.6, mixed_case=True, noncmake=True, rich=False, ensure_top=True, case_twins=False,
             index_module=False, symlinks=False, dirlinks=False, follow=False, deep_chain=0, many_files=0):
    t = Tree()
    twins = {"a": "A", "b": "B", "top": "Top", "m": "M", "util": "Util", "sub": "Sub", "aa": "AA", "core": "Core", "zz": "ZZ"}

    def fill(d, depth):
        nfiles = rng.choice([0, 0, 1, 2, 3, 4]) if d else rng.choice([1, 2, 3, 4])
        stems = rng.sample(STEMS, min(nfiles, len(STEMS)))
        have_lower = False
        for s in stems:
            ext = ".cmake"
            if mixed_case and have_lower and rng.random() < 0.2:
                ext = rng.choice([".CMake", ".CMAKE", ".cMAKE"])
            else:
                have_lower = True
            rel = os.path.join(d, s + ext)
            t.files[rel] = cmake_text(rel, rng, rich) if rng.random() > 0.06 else ""      # some files are zero bytes long
            if case_twins and s in twins and rng.random() < 0.5:
                rel2 = os.path.join(d, twins[s] + ".cmake")
                t.files[rel2] = cmake_text(rel2, rng, rich)
        if noncmake:
            for n in rng.sample(NONCMAKE, rng.choice([0, 0, 1, 2])):
                t.files[os.path.join(d, n)] = "not cmake: ( \" unbalanced\n"
        if depth < max_depth:
            for n in rng.sample(DIRN, rng.choice([0, 1, 2, 3]) if rng.random() < p_sub else 0):
                sd = os.path.join(d, n)
                t.dirs.add(sd)
                fill(sd, depth + 1)
                if rng.random() < 0.15 and not n.endswith(".cmake"):
                    # a CMake file whose stem is the name of the sub-directory next to it
                    t.files[os.path.join(d, n + ".cmake")] = cmake_text(os.path.join(d, n + ".cmake"), rng, rich)
                if case_twins and n in twins and rng.random() < 0.5:
                    sd2 = os.path.join(d, twins[n])
                    t.dirs.add(sd2)
                    fill(sd2, depth + 1)
    fill("", 0)
    if symlinks:
        # in some sub-directories every CMake file is a symbolic link to a regular file stored elsewhere
        for d in sorted(x for x in t.dirs if x):
            if rng.random() < 0.3:
                for f in t.files_of(d):
                    if f.lower().endswith(".cmake"):
                        t.links.add(os.path.join(d, f))
    if deep_chain:
        # scale: a chain of `deep_chain` directories below each other, a CMake file in every one of them
        d = ""
        for k in range(deep_chain):
            d = os.path.join(d, f"l{k + 1}")
            t.dirs.add(d)
            t.files[os.path.join(d, f"lvl{k + 1}.cmake")] = cmake_text(os.path.join(d, f"lvl{k + 1}.cmake"), rng, rich)
    if many_files:
        # scale: one directory with several hundred entries
        d = rng.choice(sorted(x for x in t.dirs if x.count(os.sep) < 3))
        for k in range(many_files):
            nm = f"m{k:04d}.cmake" if k % 9 else f"m{k:04d}.txt"
            t.files[os.path.join(d, nm)] = cmake_text(nm, rng, False) if nm.endswith(".cmake") else "x\n"
    if index_module:
        # a module that is itself called index.cmake: its page and the directory's index.rst compete for one file name
        d = rng.choice(sorted(t.dirs))
        t.files[os.path.join(d, "index.cmake")] = cmake_text(os.path.join(d, "index.cmake"), rng, rich)
    if ensure_top and not any(f.endswith(".cmake") for f in t.files_of("")):
        t.files["top.cmake"] = cmake_text("top.cmake", rng, rich)
    if dirlinks:
        # one or two sub-directories are symbolic links to another directory of the tree (never to an ancestor of the link)
        for _ in range(rng.choice([1, 1, 2])):
            cands = sorted(x for x in t.dirs if x and x not in t.virtual and not any(
                x == l or x.startswith(l + "/") or l.startswith(x + "/") for l in t.dirlinks))
            if not cands:
                break
            target = rng.choice(cands)
            def inside(x, top):
                return x == top or x.startswith(top + "/")
            if any(inside(l, target) for l in t.dirlinks):
                continue                # the target's subtree would contain an earlier link
            parents = sorted(p for p in t.dirs if p not in t.virtual and not inside(p, target)
                             and not any(inside(p, l) or inside(p, t0) for l, t0 in t.dirlinks.items()))
            if not parents:
                continue
            parent = rng.choice(parents)
            name = rng.choice(["zz_alias", "aa_alias", "compat", "Link.d"])
            link = os.path.join(parent, name)
            if link in t.dirs or link in t.dirlinks or any(os.path.join(parent, name + e) in t.files for e in ("", ".cmake")):
                continue
            t.add_dirlink(link, target, follow)
    return t


class WalkResult:
    def __init__(self):
        self.processed_dirs = []
        self.pages = []        # rel path of the source .cmake files that get a page
        self.index = {}        # rel dir -> (listed subdir names, listed stems)
        self.descended = []    # dirs whose listing may be requested


def stem_of(name):
    return ".".join(name.split(".")[:-1])


def reference_walk(tree, root_abs, recursive, auto, spec):
    """root_abs: absolute input directory (no trailing slash); spec: gitmatch.Spec"""
    r = WalkResult()

    def ab(rel):
        return os.path.join(root_abs, rel) if rel else root_abs

    def has_cmake(d):
        return any(f.endswith(".cmake") and not spec.excluded(ab(os.path.join(d, f)), False) for f in tree.files_of(d))

    def visit(d):
        files = [f for f in tree.files_of(d) if not spec.excluded(ab(os.path.join(d, f)), False)]
        subs = [s for s in tree.subdirs(d) if not spec.excluded(ab(s), True)]
        if auto:
            subs = [s for s in subs if has_cmake(s)]
        r.processed_dirs.append(d)
        cm = sorted(f for f in files if f.lower().endswith(".cmake"))
        r.pages.extend(os.path.join(d, f) for f in cm)
        r.index[d] = ([os.path.basename(s) for s in sorted(subs)] if recursive else [], [stem_of(f) for f in cm])
        if recursive:
            for s in sorted(subs):
                visit(s)
    if spec.excluded(root_abs, True):
        return r
    visit("")
    return r


def expected_outputs(r):
    """Relative paths of every file the run must create under the output directory."""
    out = set()
    for d in r.processed_dirs:
        out.add(os.path.normpath(os.path.join(d, "index.rst")))
    for p in r.pages:
        out.add(os.path.normpath(os.path.join(os.path.dirname(p), stem_of(os.path.basename(p)) + ".rst")))
    return out


def small_trees(max_nodes=6):
    """Every directory tree with at most `max_nodes` nodes below the root where a directory may hold: a lower-case
    CMake file, a mixed-case one, a non-CMake file, and up to two sub-directories (names fixed per slot). Trees are
    returned as Tree objects; the enumeration is deterministic."""
    FILES = ["a.cmake", "B.CMake", "n.txt"]
    DIRS = ["d1", "d2"]
    import itertools

    def shapes(budget, depth):
        """yield (files tuple, subdir dict name->shape) using at most `budget` nodes"""
        for k in range(len(FILES) + 1):
            for fs in itertools.combinations(FILES, k):
                if "B.CMake" in fs and "a.cmake" not in fs:
                    continue            # carve-out: mixed case only beside a lower-case one
                left = budget - len(fs)
                if left < 0:
                    continue
                yield (fs, {})
                if depth >= 3 or left < 1:
                    continue
                for s1 in shapes(left - 1, depth + 1):
                    used1 = 1 + size(s1)
                    yield (fs, {"d1": s1})
                    if left - used1 >= 1:
                        for s2 in shapes(left - used1 - 1, depth + 1):
                            yield (fs, {"d1": s1, "d2": s2})

    def size(sh):
        return len(sh[0]) + sum(1 + size(v) for v in sh[1].values())

    def build(sh, d, t):
        for f in sh[0]:
            rel = os.path.join(d, f)
            t.files[rel] = cmake_text(rel) if f.lower().endswith(".cmake") else "not cmake ( \"\n"
        for n, sub in sh[1].items():
            sd = os.path.join(d, n)
            t.dirs.add(sd)
            build(sub, sd, t)
    out = []
    for sh in shapes(max_nodes, 0):
        if "a.cmake" not in sh[0]:
            continue                    # carve-out: the input directory holds a lower-case .cmake file
        t = Tree()
        build(sh, "", t)
        out.append(t)
    return out
