"""Real CMake as the reference for argument boundaries: `cmake --trace --trace-format=json-v1 -P`."""
import json
import os
import subprocess

PRELUDE = "cmake_minimum_required(VERSION 3.20)\n"


def trace(sb, files, timeout=300):
    """Runs one cmake process including every file in `files`. -> ({file: [entry...]}, returncode, stderr)"""
    drv = os.path.join(sb, "trace_driver.cmake")
    out = os.path.join(sb, "trace.json")
    with open(drv, "w", encoding="utf-8") as f:
        f.write(PRELUDE)
        for p in files:
            f.write('include("%s")\n' % p.replace("\\", "/"))
    if os.path.exists(out):
        os.remove(out)
    p = subprocess.run(["cmake", "--trace", "--trace-format=json-v1", "--trace-redirect=" + out, "-P", drv],
                       capture_output=True, timeout=timeout, cwd=sb)
    res = {}
    if os.path.exists(out):
        with open(out, encoding="utf-8", errors="replace") as f:
            for ln in f:
                try:
                    e = json.loads(ln)
                except ValueError:
                    continue
                if "cmd" in e:
                    res.setdefault(e["file"], []).append(e)
    return res, p.returncode, p.stderr.decode("utf-8", "replace")


def parse_check(sb, path, timeout=60):
    """Does CMake accept the file syntactically?  -> (ok, stderr). The file is included inside a function that is never
    called... not possible for syntax; instead it is run with all commands being unknown -> we only look for
    'Parse error' / 'Syntax error' in the message."""
    p = subprocess.run(["cmake", "-P", path], capture_output=True, timeout=timeout, cwd=sb)
    err = p.stderr.decode("utf-8", "replace")
    bad = ("Parse error" in err) or ("Syntax error" in err) or ("Invalid character escape" in err) or \
          ("Invalid escape" in err)
    return (not bad), err
