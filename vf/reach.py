"""M-reach: sys.monitoring PY_START counters on the functions named in a property's anchors.
A run in which the deciding code was never reached must be reported inconclusive, not 'held'."""
import sys

TOOL = 3


class Reach:
    def __init__(self):
        self.counts = {}
        self.codes = {}
        self.active = False

    def start(self, anchors):
        """anchors: list of 'module:qualname' (e.g. 'cminx.aggregator:DocumentationAggregator.clean_doc_lines')"""
        import importlib
        mon = sys.monitoring
        try:
            mon.use_tool_id(TOOL, "vf-reach")
        except ValueError:
            return False
        for a in anchors:
            mod, qual = a.split(":")
            try:
                obj = importlib.import_module(mod)
                for part in qual.split("."):
                    obj = getattr(obj, part)
                obj = getattr(obj, "__func__", obj)
                if isinstance(obj, property):
                    obj = obj.fset or obj.fget
                code = obj.__code__
            except Exception:
                self.counts[a] = -1          # anchor does not exist (renamed/removed): reported, not fatal
                continue
            self.codes[code] = a
            self.counts[a] = 0
            mon.set_local_events(TOOL, code, mon.events.PY_START)

        def cb(code, offset):
            a = self.codes.get(code)
            if a is not None:
                self.counts[a] += 1
        mon.register_callback(TOOL, mon.events.PY_START, cb)
        self.active = True
        return True

    def stop(self):
        if not self.active:
            return
        mon = sys.monitoring
        for code in self.codes:
            mon.set_local_events(TOOL, code, 0)
        mon.register_callback(TOOL, mon.events.PY_START, None)
        mon.free_tool_id(TOOL)
        self.active = False
