"""Deliberately dumb line scanner for the shape of CMinx's own output.

A directive heading at indentation I is a line  I*' ' + '.. name:: args'  that carries no
doc-line id; its block is every following line that is blank or indented deeper than I.
No CMinx code is used."""
import re

from .modgen import LINE_ID, NAME_ID

HEAD = re.compile(r"^( *)\.\. ([A-Za-z][A-Za-z0-9:_-]*)::(?: (.*))?$")
KNOWN = {"module", "function", "data", "py:class", "py:method", "py:attribute", "note", "warning", "toctree"}


class Node:
    def __init__(self, name, arg, indent, lineno):
        self.name = name
        self.arg = arg if arg is not None else ""
        self.indent = indent
        self.lineno = lineno
        self.lines = []       # raw lines of the block (after the heading)
        self.children = []    # directive nodes directly inside
        self.content = []     # (lineno, raw line) of non-directive lines directly inside (incl. options, blanks)

    def uid(self):
        m = NAME_ID.search(self.arg)
        return int(m.group(1)) if m else None

    def find(self, name):
        return [c for c in self.children if c.name == name]

    def text_lines(self):
        return [l for _, l in self.content]


def indent_of(line):
    return len(line) - len(line.lstrip(" "))


ENTRY_ONLY = KNOWN - {"note", "warning"}


def is_heading(line, indent, known=KNOWN):
    if LINE_ID.search(line):
        return None
    m = HEAD.match(line)
    if not m or len(m.group(1)) != indent:
        return None
    if m.group(2) not in known:
        return None
    return m


def parse_block(lines, start, end, indent, known=KNOWN):
    """Parse lines[start:end] as the content of a container whose directives sit at `indent`."""
    nodes, content = [], []
    i = start
    while i < end:
        line = lines[i]
        m = is_heading(line, indent, known)
        if m:
            node = Node(m.group(2), m.group(3), indent, i)
            j = i + 1
            while j < end:
                lj = lines[j]
                if lj.strip(" \t\r") == "" or indent_of(lj) > indent:
                    j += 1
                else:
                    break
            node.lines = lines[i + 1:j]
            node.children, node.content = parse_block(lines, i + 1, j, indent + 3, known)
            nodes.append(node)
            i = j
        else:
            content.append((i, line))
            i += 1
    return nodes, content


class Page:
    def __init__(self, text, known=KNOWN):
        self.text = text
        self.lines = text.split("\n")
        self.top, self.top_content = parse_block(self.lines, 0, len(self.lines), 0, known)

    def title_block(self):
        """(blank, over, title, under) = the first four lines."""
        return self.lines[:4]

    def entries(self):
        return [n for n in self.top if n.name != "module"]

    def modules(self):
        return [n for n in self.top if n.name == "module"]

    def stray_top_lines(self):
        """Non-blank top-level lines after the title block that belong to no directive."""
        return [(i, l) for i, l in self.top_content if i >= 4 and l.strip() != ""]


def doc_lines_of(node):
    """Direct content lines of a directive that carry a doc-line id, as (uid, k, raw line)."""
    out = []
    for _, l in node.content:
        for m in LINE_ID.finditer(l):
            out.append((int(m.group(1)), int(m.group(2)), l))
            break
    return out


def kind_of(node):
    """Loose reading of the entry kind from the directive name and its marker."""
    if node.name == "py:class":
        return "class"
    if node.name == "data":
        notes = node.find("note")
        if any("option" in " ".join(n.arg.split() + [x.strip() for x in n.text_lines()]) for n in notes):
            return "option"
        return "data"
    if node.name == "function":
        notes = " ".join(n.arg for n in node.find("note"))
        warns = " ".join(n.arg for n in node.find("warning"))
        if "macro" in notes:
            return "macro"
        if "generic" in warns:
            return "generic"
        dnc = "do not call" in warns.lower()
        if "CMakeTest" in warns and "section" in warns:
            return "section" if dnc else "section-without-do-not-call-warning"
        if "CMakeTest" in warns and "test" in warns:
            return "test" if dnc else "test-without-do-not-call-warning"
        if "CTest" in warns:
            return "ctest" if dnc else "ctest-without-do-not-call-warning"
        if warns:
            return "unknown-warning"
        return "function"
    if node.name == "py:method":
        return "method"
    if node.name == "py:attribute":
        return "attr"
    return node.name


def split_sig(arg):
    """'name(sig)' -> (name, sig) using the last ')' and the first '(' after the name part is ambiguous for
    names with parentheses, so callers that know the name should use startswith instead."""
    if arg.endswith(")") and "(" in arg:
        i = arg.index("(")
        return arg[:i], arg[i + 1:-1]
    return arg, None
