"""Doc bodies drawn from valid reST constructs; every text-bearing line carries the line id."""

W = ["alpha", "beta", "gamma", "value", "the", "of", "returns", "path", "*em*", "``lit``", ":code:`x`", "**strong**"]


def words(r, lo=1, hi=5):
    return " ".join(r.choice(W) for _ in range(r.randint(lo, hi)))


class BodyGen:
    def __init__(self, rng, uid):
        self.r, self.uid, self.k = rng, uid, 0

    def lid(self):
        s = f"{{L{self.uid}.{self.k}}}"
        self.k += 1
        return s

    def paragraph(self):
        return [f"{self.lid()} {words(self.r)}" for _ in range(self.r.randint(1, 3))]

    def fields(self):
        names = [":param x:", ":type x:", ":returns:", ":rtype:", ":param long_name:", ":Author:", ":keyword FOO:"]
        out = []
        for _ in range(self.r.randint(1, 3)):
            out.append(f"{self.r.choice(names)} {self.lid()} {words(self.r)}")
            if self.r.random() < 0.3:
                out.append(f"   {self.lid()} continued {words(self.r)}")
        return out

    def bullets(self):
        b = self.r.choice("*-+")
        out = []
        for _ in range(self.r.randint(1, 3)):
            out.append(f"{b} {self.lid()} {words(self.r)}")
            if self.r.random() < 0.3:
                out.append(f"  {self.lid()} more")
        return out

    def enum(self):
        style = self.r.choice(["n.", "#.", "n)"])
        out = []
        for i in range(self.r.randint(1, 3)):
            lead = {"n.": f"{i + 1}.", "#.": "#.", "n)": f"{i + 1})"}[style]
            out.append(f"{lead} {self.lid()} {words(self.r)}")
        return out

    def literal(self):
        out = [f"{self.lid()} example::", ""]
        for _ in range(self.r.randint(1, 3)):
            out.append(f"   {self.lid()} set(x ${{y}}) # [[ ]]")
        return out

    def directive(self):
        c = self.r.choice(["note", "warning", "code", "note-inline", "nested"])
        if c == "note":
            return [".. note::", "", f"   {self.lid()} {words(self.r)}", f"   {self.lid()} second line"]
        if c == "warning":
            return [f".. warning:: {self.lid()} inline {words(self.r)}"]
        if c == "code":
            return [".. code-block:: cmake", "", f"   {self.lid()} message(hi)", f"     {self.lid()} indented(more)"]
        if c == "note-inline":
            return [f".. note:: {self.lid()} {words(self.r)}", f"   {self.lid()} continued"]
        return [".. note::", "", f"   {self.lid()} outer", "", "   .. warning::", "", f"      {self.lid()} inner"]

    def deflist(self):
        return [f"term {self.lid()}", f"   {self.lid()} definition {words(self.r)}"]

    def quote(self):
        return [f"   {self.lid()} quoted {words(self.r)}"]

    def body(self, nblocks=None):
        kinds = [self.paragraph, self.fields, self.bullets, self.enum, self.literal, self.directive, self.deflist,
                 self.quote, self.paragraph]
        n = nblocks if nblocks is not None else self.r.choice([0, 1, 1, 2, 3, 4])
        out, names = [], []
        prev = None
        for i in range(n):
            f = self.r.choice(kinds)
            if f == self.quote and (i == 0 or prev in (self.quote, self.deflist, self.literal)):
                f = self.paragraph      # a block quote needs a preceding flush-left block to be one
            if out:
                out.extend([""] * self.r.randint(1, 2))
            out.extend(f())
            names.append(f.__name__)
            prev = f
        return out, names
