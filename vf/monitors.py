"""Monitors installed from the harness process (no edit of the repository needed):
M-audit  : sys.addaudithook log of every file-system mutation while armed
M-scandir: os.scandir replacement that yields the real entries in an injected order
"""
import os
import sys

_WRITE_FLAGS = os.O_WRONLY | os.O_RDWR | os.O_CREAT | os.O_TRUNC | os.O_APPEND
_MUTATORS = {"os.mkdir", "os.remove", "os.rename", "os.rmdir", "os.symlink", "os.link", "os.truncate", "os.chmod",
             "os.chown", "os.utime", "shutil.copyfile", "shutil.move", "shutil.rmtree", "shutil.copytree",
             "shutil.copymode", "shutil.copystat", "shutil.chown", "os.mkfifo", "os.mknod", "os.replace",
             "tempfile.mkstemp", "tempfile.mkdtemp"}


class AuditLog:
    _installed = None

    def __init__(self):
        self.armed = False
        self.events = []      # (event, absolute path, extra)
        self.seen = 0

    @classmethod
    def get(cls):
        if cls._installed is None:
            cls._installed = AuditLog()
            sys.addaudithook(cls._installed._hook)
        return cls._installed

    def _abs(self, p):
        try:
            if isinstance(p, bytes):
                p = os.fsdecode(p)
            if isinstance(p, int):
                return f"<fd {p}>"
            p = os.fspath(p)
            return os.path.normpath(os.path.join(os.getcwd(), p))
        except Exception:
            return repr(p)

    def _hook(self, event, args):
        if not self.armed:
            return
        try:
            if event == "open":
                self.seen += 1
                path, mode, flags = args[0], args[1], args[2]
                if isinstance(path, int):
                    return          # os.fdopen()/open(fd): the descriptor's own creation was already reported
                if isinstance(flags, int) and flags & _WRITE_FLAGS:
                    self.events.append(("open-write", self._abs(path), mode))
            elif event in _MUTATORS:
                self.seen += 1
                self.events.append((event, self._abs(args[0]), None))
                if event in ("os.rename", "os.link", "os.symlink", "os.replace", "shutil.copyfile", "shutil.move") \
                        and len(args) > 1:
                    self.events.append((event + ":dst", self._abs(args[1]), None))
        except Exception as e:      # a monitor must never break the monitored program
            self.events.append(("monitor-error", repr(e), None))

    def arm(self):
        self.events = []
        self.seen = 0
        self.armed = True

    def disarm(self):
        self.armed = False
        return list(self.events)


class _PermIter:
    def __init__(self, entries):
        self._e = list(entries)
        self._i = 0

    def __iter__(self):
        return self

    def __next__(self):
        if self._i >= len(self._e):
            raise StopIteration
        self._i += 1
        return self._e[self._i - 1]

    def __enter__(self):
        return self

    def __exit__(self, *a):
        return False

    def close(self):
        self._e = []


class ScandirPerm:
    """Context manager: while active, os.scandir yields entries in the order chosen by `order(path, names)`.
    `order` returns the list of names in the wanted order (a permutation)."""

    def __init__(self, order):
        self.order = order
        self.log = []          # (path, names in the order handed out)
        self._real = None

    def __enter__(self):
        self._real = os.scandir

        def fake(path="."):
            with self._real(path) as it:
                ents = list(it)
            by = {e.name: e for e in ents}
            names = self.order(os.fspath(path) if not isinstance(path, int) else path, sorted(by))
            assert sorted(names) == sorted(by), "order() must return a permutation"
            self.log.append((os.path.abspath(path), list(names)))
            return _PermIter([by[n] for n in names])
        os.scandir = fake
        return self

    def __exit__(self, *a):
        os.scandir = self._real
        return False


def snapshot(root):
    """{relative path: (type, size, sha1, mtime_ns)} of everything below root (no symlink following)."""
    import hashlib
    out = {}
    for d, subs, files in os.walk(root):
        rel = os.path.relpath(d, root)
        out[rel if rel != "." else ""] = ("dir", 0, "", 0)
        for f in files:
            p = os.path.join(d, f)
            try:
                st = os.lstat(p)
                with open(p, "rb") as fh:
                    h = hashlib.sha1(fh.read()).hexdigest()
            except OSError:
                st, h = None, "?"
            r = os.path.normpath(os.path.join(rel, f))
            out[r] = ("file", st.st_size if st else -1, h, st.st_mtime_ns if st else 0)
    return out
