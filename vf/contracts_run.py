"""Runs part of the repository's own test-suite with vf.pytest_contracts switched on."""
import json
import os
import subprocess
import tempfile

from .core import repo_root, PY, VERIF


def run_repo_tests(paths, timeout=900):
    rep = tempfile.mktemp(prefix="vfcontract_", suffix=".json")
    env = dict(os.environ)
    env["PYTHONPATH"] = os.path.join(repo_root(), "src") + os.pathsep + VERIF
    env["VF_CONTRACT_REPORT"] = rep
    env["CMINX_VERIF"] = "1"
    env.pop("PYTHONOPTIMIZE", None)      # the repository's own tests (and the contracts) consist of assert statements
    p = subprocess.run([PY, "-m", "pytest", "-q", "-p", "no:cacheprovider", "-p", "vf.pytest_contracts"] + list(paths),
                       cwd=repo_root(), env=env, capture_output=True, timeout=timeout)
    out = p.stdout.decode("utf-8", "replace")
    data = None
    if os.path.exists(rep):
        with open(rep) as f:
            data = json.load(f)
        os.remove(rep)
    return p.returncode, out[-600:], data
