import argparse
import os
import sys

from . import core


def main():
    ap = argparse.ArgumentParser()
    ap.add_argument("pid")
    ap.add_argument("--tier", default=os.environ.get("VERIF_TIER", "quick"), choices=["quick", "thorough"])
    ap.add_argument("--replay")
    ap.add_argument("--workers", type=int)
    ap.add_argument("--case", type=int, help="run one case index in-process and print its result")
    a = ap.parse_args()
    seed = int(os.environ.get("VERIF_SEED", "0") or 0)
    if a.replay:
        sys.exit(core.replay(a.replay))
    if a.case is not None:
        os.environ[core.GUARD] = "1"
        prop = core.load_prop(a.pid)
        prop.tier, prop.seed = a.tier, seed
        prop.setup_worker()
        res = prop.run_case(a.case, core.case_rng(a.pid, seed, a.tier, a.case))
        import json
        print(json.dumps({"sig": res.sig, "nontrivial": res.nontrivial, "obs": res.obs,
                          "sets": {k: sorted(v) for k, v in res.sets.items()}, "skipped": res.skipped,
                          "violations": res.violations, "sample": res.sample}, indent=1, default=str))
        prop.teardown_worker()
        sys.exit(1 if res.violations else 0)
    sys.exit(core.drive(a.pid.upper(), a.tier, seed, a.workers))


if __name__ == "__main__":
    main()
