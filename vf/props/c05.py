"""C05 — every valid CMake file is accepted, with CMake's argument boundaries (differential vs. real CMake)."""
import glob
import os
import re

from ..core import BaseProp, CaseResult, sig_hash
from .. import runner, argen, cmake_trace, cmake_lexer

CORPUS_GLOB = "/usr/share/cmake-3.25/**/*.cmake"
BATCH = 20
CORPUS_CHUNK = 8
HOSTILE_FUNCS = ["my_cmd", "docs", "Process", "ct_assert", "generic_command", "documented", "settings_"]
BR = re.compile(r"\[(=*)\[")


def norm_token(text):
    """Value of an argument from its written shape (left-to-right scan; no CMinx code)."""
    if len(text) >= 2 and text[0] == '"' and text[-1] == '"':
        body = text[1:-1]
        out = []
        i = 0
        while i < len(body):
            if body[i] == "\\" and i + 1 < len(body):
                if body[i + 1] == "\n":
                    i += 2
                    continue
                if body[i + 1] == "\r" and i + 2 < len(body) and body[i + 2] == "\n":
                    i += 3
                    continue
                out.append(body[i:i + 2])
                i += 2
                continue
            out.append(body[i])
            i += 1
        return "".join(out)
    m = BR.match(text)
    if m and text.endswith("]" + m.group(1) + "]") and len(text) >= 2 * (len(m.group(1)) + 2):
        inner = text[m.end():len(text) - len(m.group(1)) - 2]
        if inner.startswith("\r\n"):
            return inner[2:]
        if inner.startswith("\n"):
            return inner[1:]
        return inner
    return text


def flatten_ctx(ctx):
    """Flattened argument texts of a command_invocation / compound_argument parse-tree node."""
    out = []
    for ch in ctx.getChildren():
        name = type(ch).__name__
        if name == "Single_argumentContext":
            out.append(norm_token(ch.getText()))
        elif name == "Compound_argumentContext":
            out.append("(")
            out.extend(flatten_ctx(ch))
            out.append(")")
    return out


def commands_of_tree(tree):
    out = []

    def rec(node):
        name = type(node).__name__
        if name == "Command_invocationContext":
            out.append((node.Identifier().getText(), node.start.line, flatten_ctx(node)))
            return
        for i in range(node.getChildCount()):
            ch = node.getChild(i)
            if hasattr(ch, "getChildCount"):
                rec(ch)
    rec(tree)
    return out


class Prop(BaseProp):
    ID = "C05"
    ANCHORS = ['cminx.documenter:Documenter.__init__', 'cminx.documenter:Documenter.process', 'cminx.parser.CMakeParser:CMakeParser.command_invocation', 'cminx.parser.CMakeParser:CMakeParser.compound_argument']
    LEVEL = "translation_validation"
    RULE = ("(1) generated files: probe(<args>) commands whose arguments are drawn from every argument form x special "
            "characters x valid escapes x bracket levels 0-3 with near-miss closers x nested parentheses x adjacent "
            "comments x multi-line quoted arguments and continuations x non-ASCII, at top level, inside if/foreach and "
            "inside called functions, documented or not, with hostile command names; CMake's own cut of every call "
            "(JSON trace) vs. the parse tree captured inside the real Documenter.process() run; (2) corpus: the "
            "*.cmake files shipped with CMake 3.25 processed by the real pipeline, boundaries vs. the reference "
            "lexer. Distinct = per command: tuple of argument kinds; non-trivial = command with >=1 non-identifier "
            "argument")
    ASSUMPTIONS = ["CMake 3.25.1 is the reference for argument boundaries", "legacy arguments (embedded quotes, $(...), "
                   "glued to a preceding quoted/bracket argument) are skipped and counted",
                   "a file on which the reference lexer and CMake disagree is counted as a reference disagreement and not "
                   "asserted on", "corpus files that are not CMake (reference lexer says INVALID) are excluded",
                   "CR LF line ends are read as LF (CMake's input layer), also inside multi-line arguments, before values are compared"]
    HEADLINE = ["programs", "commands_compared", "corpus_files_processed", "corpus_commands_compared",
                "disagreements_checked", "reference_disagreements"]

    NG = {"quick": 200, "thorough": 5000}

    def corpus(self):
        fs = sorted(glob.glob(CORPUS_GLOB, recursive=True))
        if self.tier == "quick":
            fs = fs[self.seed % 6::6]
        return fs

    def n_cases(self, tier):
        self.tier = tier
        n = len(self.corpus())
        return self.NG[tier] + (n + CORPUS_CHUNK - 1) // CORPUS_CHUNK

    def setup_worker(self):
        runner.cminx()
        from cminx.parser.CMakeParser import CMakeParser
        self.CMakeParser = CMakeParser
        self.trees = []
        real = CMakeParser.cmake_file
        trees = self.trees

        def wrapped(self_):
            t = real(self_)
            trees.append(t)
            return t
        CMakeParser.cmake_file = wrapped
        self._real = real

    def teardown_worker(self):
        self.CMakeParser.cmake_file = self._real

    def gen_file(self, rng, res):
        names = ["probe"] + rng.sample(HOSTILE_FUNCS, rng.randint(0, 2))
        if "generic_command" in names and rng.random() < 0.7:
            names.remove("generic_command")
        lines = []
        for nm in names:
            lines.append(f"function({nm})\nendfunction()\n")
        body = []
        self.doc_flags = []
        ncmd = rng.randint(2, 8)
        if rng.random() < (0.04 if self.tier == "quick" else 0.008):
            ncmd = rng.randint(150, 400)        # a file well beyond any read-buffer size, non-ASCII spread all over it
            self.big_files = getattr(self, "big_files", 0) + 1
        for k in range(ncmd):
            args = [argen.any_arg(rng) for _ in range(rng.randint(0, 6))]
            if rng.random() < 0.03:
                deep = ["x"]
                for _ in range(rng.randint(10, 40)):
                    deep = [rng.choice(["a", "NOT"]), deep] if rng.random() < 0.5 else [deep, "b"]
                args.append(deep)                     # parentheses nested tens of levels deep
            if rng.random() < 0.03:
                args.append('"' + "long text with ünï " * rng.randint(200, 900) + '"')      # one argument of 4-18 kB
            nm = rng.choice(names)
            nm_w = rng.choice([nm, nm.upper(), nm.capitalize()])
            cmd = f"{nm_w}{rng.choice(['', ' ', chr(9)])}({argen.render_args(rng, args)}{rng.choice(['', ' ', chr(10)])})"
            cmd += rng.choice(["\n", " # trailing comment \" (\n", "\n\n", "\n#[[ c ]]\n"])
            doc = ""
            if rng.random() < 0.25:
                doc = "#[[[\n# documented é call\n#]]\n"
            self.doc_flags.append(bool(doc))
            where = rng.choice(["top", "top", "if", "foreach", "fn"])
            if where == "top":
                body.append(doc + cmd)
            elif where == "if":
                body.append("if(1)\n" + doc + cmd + "endif()\n")
            elif where == "foreach":
                body.append("foreach(_i 1)\n" + doc + cmd + "endforeach()\n")
            else:
                fn = f"wrap_{k}"
                body.append(f"function({fn})\n" + doc + cmd + f"endfunction()\n{fn}()\n")
        text = "".join(lines) + "".join(body)
        shape = rng.random()
        if shape < 0.08:
            text = "\ufeff" + text                # UTF-8 byte order mark, as some editors write it (CMake accepts it)
            self.bom_files = getattr(self, "bom_files", 0) + 1
        elif shape < 0.16 and text.endswith("\n"):
            text = text[:-1]                       # no newline at the end of the file
        elif shape < 0.30:
            # a file saved with CR LF line ends (CMake reads it like the LF file), with everything else - form feeds, NEL,
            # U+2028/9 inside arguments and comments - still in it
            text = text.replace("\n", "\r\n")
            self.crlf_files = getattr(self, "crlf_files", 0) + 1
        return text, (names, list(self.doc_flags))

    def run_case(self, idx, rng):
        res = CaseResult()
        if idx < self.NG[self.tier]:
            return self.generated(idx, rng, res)
        return self.corpus_chunk(idx - self.NG[self.tier], rng, res)

    def cminx_commands(self, path, res, wit):
        """Runs the real pipeline on the file; returns the commands of the tree it parsed (or None on a crash)."""
        from cminx.documenter import Documenter
        del self.trees[:]

        def go():
            return str(Documenter(path, "T", "M", runner.make_settings()).process())
        o = runner.guarded(go)
        if not o.ok:
            return o, None
        if len(self.trees) != 1:
            raise RuntimeError("M-tree captured %d trees" % len(self.trees))
        return o, commands_of_tree(self.trees[0])

    def generated(self, idx, rng, res):
        with runner.sandbox() as sb:
            files = []
            for j in range(BATCH):
                text, names = self.gen_file(rng, res)
                p = os.path.join(sb, f"g{j}.cmake")
                with open(p, "w", encoding="utf-8", newline="") as f:
                    f.write(text)
                files.append((p, text, names))
            tr, rc, err = cmake_trace.trace(sb, [p for p, _, _ in files])
            if rc != 0:
                # one failing file aborts the whole batch: re-run the files that produced no trace one by one
                for p, _, _ in files:
                    if p not in tr:
                        t1, rc1, err1 = cmake_trace.trace(sb, [p])
                        tr.update(t1)
                        res.count("files_traced_individually")
            sigs = []
            res.count("large_files", getattr(self, "big_files", 0))
            res.count("files_with_byte_order_mark", getattr(self, "bom_files", 0))
            res.count("files_with_crlf_line_ends", getattr(self, "crlf_files", 0))
            self.crlf_files = 0
            self.big_files = 0
            self.bom_files = 0
            for p, text, (names, doc_flags) in files:
                res.count("programs")
                wit = {"text": text}
                ents = [e for e in tr.get(p, []) if e["cmd"].lower() in {n.lower() for n in names}]
                crlf = "\r\n" in text
                text_n = text.replace("\r\n", "\n")      # CMake's input layer reads CR LF as LF
                ref = cmake_lexer.lex(text_n.lstrip("\ufeff"))
                refc = {c.line: c for c in ref.commands if c.name.lower() in {n.lower() for n in names}}
                # validate the two references against each other
                bad_ref = (not ref.valid) or ref.legacy or rc != 0 and not ents
                for e in ents:
                    c = refc.get(e["line"])
                    if c is None or c.values() != e["args"]:
                        bad_ref = True
                if len(ents) != len(refc):
                    bad_ref = True
                if bad_ref:
                    res.count("reference_disagreements")
                    if "\r\n" in text:
                        res.count("reference_disagreements_on_crlf_files")
                    res.see("reference_disagreement_samples", (err[-200:] if rc else "") + text[:200])
                    continue
                if rng.random() < 0.3:
                    # history: a file with a syntax error is processed first, by the same process (must fail, and must not
                    # change what happens to the valid file afterwards)
                    bad = os.path.join(sb, "bad_before.cmake")
                    with open(bad, "w") as f:
                        f.write(rng.choice(["function(broken\n", "set(x \"unterminated\n", "bareword\nset(x 1)\n", "set(a b))\n",
                                            "message(\\q)\n"]))
                    ob, _ = self.cminx_commands(bad, res, wit)
                    res.count("invalid_files_processed_before_a_valid_one")
                    wit = dict(wit, history="an invalid file was processed before this one in the same process")
                o, cm = self.cminx_commands(p, res, wit)
                if "\r\n" in text:
                    res.count("crlf_files_compared")
                if cm is None:
                    cls = o.crash_class() or f"exit:{o.exit_code}"
                    if "history" in wit:
                        cls += ":after-invalid-file"
                    if "generic_command" in [n for n in names]:
                        msg = f"{type(o.exc).__name__}: {o.exc}"
                        if ("include_undocumented_generic_command" in msg) or ("process_generic_command" in msg):
                            cls = "dispatch-namespace-collision"
                    res.violate(cls, f"valid file rejected: {type(o.exc).__name__}: {str(o.exc)[:300]}", wit)
                    continue
                mine = {ln: (nm, [a.replace("\r\n", "\n") for a in args] if crlf else args) for nm, ln, args in cm if nm.lower() in {n.lower() for n in names}}
                for e in ents:
                    res.count("commands_compared")
                    res.count("disagreements_checked")
                    got = mine.get(e["line"])
                    kinds = tuple(a.kind for a in refc[e["line"]].args)
                    sigs.append(kinds)
                    for kd in kinds:
                        res.see("argument_kinds", kd)
                    if got is None:
                        res.violate("command-missing-in-parse-tree", f"line {e['line']}: {e['cmd']}({e['args']})", wit)
                    elif got[1] != e["args"]:
                        res.violate("argument-boundaries-differ", f"line {e['line']}: CMake {e['args']!r} vs CMinx {got[1]!r}", wit)
                if len(mine) != len(ents):
                    res.violate("command-count-differs", f"CMake executed {len(ents)} calls, CMinx sees {len(mine)}", wit)
                # signature of documented generic commands (third observation point)
                self.check_signatures(res, o.value, text_n, ref, names, doc_flags, wit)
            res.sig = sig_hash(sorted(set(sigs)))
            res.nontrivial = any(any(k != "identifier" for k in s) for s in sigs)
            if idx % 16 == 0:
                res.sample = {"text": files[0][1][:1200], "cmake_cut": [(e["line"], e["args"]) for e in tr.get(files[0][0], [])
                                                                        if e["cmd"].lower() == "probe"][:4]}
        return res

    def check_signatures(self, res, rst, text, ref, names, doc_flags, wit):
        text = text.lstrip("\ufeff")
        from .. import rstscan
        low = {n.lower() for n in names}
        calls = [c for c in ref.commands if c.name.lower() in low]
        if len(calls) != len(doc_flags):
            return
        want = []
        for c, d in zip(calls, doc_flags):
            if not d:
                continue

            def fold(args, i=0):
                out = []
                while i < len(args):
                    a = args[i]
                    if a.kind == "paren" and a.value == "(":
                        inner, i = fold(args, i + 1)
                        out.append("(" + " ".join(inner) + ")")
                    elif a.kind == "paren":
                        return out, i + 1
                    else:
                        out.append(a.raw)
                        i += 1
                return out, i
            flat, _ = fold(c.args)
            want.append(c.name.lower() + "(" + " ".join(flat) + ")")
        if any("\n" in w or "\r" in w for w in want):
            res.count("signature_checks_skipped_multiline")
            return
        page = rstscan.Page(rst)
        got = [n.arg for n in page.entries() if rstscan.kind_of(n) == "generic"]
        res.count("generic_signatures_checked", len(want))
        if got != want:
            res.violate("generic-signature-differs", f"documented calls rendered {got!r}, written {want!r}", wit)

    def corpus_chunk(self, k, rng, res):
        fs = self.corpus()[k * CORPUS_CHUNK:(k + 1) * CORPUS_CHUNK]
        sigs = []
        for path in fs:
            try:
                text = open(path, encoding="utf-8", newline="").read()
            except UnicodeDecodeError:
                res.count("corpus_files_not_utf8")
                continue
            ref = cmake_lexer.lex(text)
            if not ref.valid:
                res.count("corpus_files_not_cmake")
                res.see("corpus_excluded", os.path.basename(path) + ":" + ref.invalid[0])
                continue
            res.count("corpus_files_processed")
            res.count("programs")
            wit = {"file": path}
            o, cm = self.cminx_commands(path, res, wit)
            if cm is None:
                res.violate((o.crash_class() or f"exit:{o.exit_code}") + ":corpus", f"{path}: {type(o.exc).__name__}: "
                            f"{str(o.exc)[:300]}", wit)
                continue
            if len(cm) != len(ref.commands):
                res.violate("command-count-differs:corpus", f"{path}: reference {len(ref.commands)} commands, CMinx {len(cm)}", wit)
                continue
            for c, (nm, ln, args) in zip(ref.commands, cm):
                if c.legacy:
                    res.count("corpus_legacy_commands_skipped")
                    continue
                res.count("corpus_commands_compared")
                res.count("disagreements_checked")
                sigs.append(tuple(a.kind for a in c.args)[:6])
                if nm != c.name or args != c.values():
                    res.violate("argument-boundaries-differ:corpus", f"{path}:{c.line}: reference {c.name}({c.values()!r}) vs "
                                f"CMinx {nm}({args!r})", wit)
                    break
        res.sig = sig_hash(["corpus", k])
        res.nontrivial = bool(sigs)
        return res

    def check_observed(self, merged, tier):
        o = merged["obs"]
        out = [f"{k} < 50" for k in ("programs", "commands_compared", "corpus_files_processed", "corpus_commands_compared")
               if o.get(k, 0) < 50]
        if o.get("reference_disagreements", 0) > 0.01 * max(1, o.get("programs", 0)):
            out.append(f"references disagree on {o.get('reference_disagreements')} of {o.get('programs')} files (>1%)")
        return out

    def extra_coverage(self, merged, tier):
        o = merged["obs"]
        return {"programs": o.get("programs", 0), "disagreements_checked": o.get("disagreements_checked", 0),
                "explanation": "each program is a CMake file; a 'disagreement check' compares one command's argument list "
                               "as cut by the reference (CMake trace / reference lexer) with CMinx's parse tree"}
