"""C11 — test entries carry the declared name, EXPECTFAIL flag and arguments (constructive oracle)."""
from ..core import BaseProp, CaseResult, sig_hash
from .. import runner, rstscan, oracle
from ..modgen import join_args, Layout, render, expected_entries, Item
from ..genmod import Builder

EXTRA = ["COMMAND", "exe", "${exe}", '"my exe"', "--x", "WORKING_DIRECTORY", "${CMAKE_BINARY_DIR}", "CONFIGURATIONS", "Debug",
         "MYNAME", "NAME_X", "XNAME", "EXPECTFAILURE", "NOEXPECTFAIL", "EXPECTFAIL", "PRINT_ERRORS", "COMMAND_EXPAND_LISTS", "-DNAME=1", '"NAME"',
         "[[NAME]]", "a;b", "-DITEMS=a\\;b\\;c", '"C:\\\\tools\\\\run.exe"', "check\\.version", '"say \\"hi\\""', "name_", "expectfail_", "$<TARGET_FILE:t>", '"printf \'%s|%s\'  a   b"', '"tab\there"', "[[two  blanks  inside]]",
         '"  leading and trailing  "', "fail", "expect", "T", "x", "a", "me", "NAM", "ame"]
CT_EXTRA = ["PRINT_ERRORS", "5", "MYNAME", "EXPECTFAILURE", "XEXPECTFAIL", "${opt}", '"EXPECTFAIL"', "[[EXPECTFAIL]]", "LABEL",
            "fail", "expect", "E", "IL", "T", "x", "pectf", "Fail", "a", "me", "NAM", "am"]
FRAGMENT_NAMES = ["fail", "expect", "t", "x", "EXPECT", "pectf", "Fail", "e", "il", "EXPECTFAI", "a", "m", "n", "am", "me", "na",
                  "nam", "ame", "Me", "NAM", "AME"]


class TBuilder(Builder):
    same_impl_variable = False
    grouped = 0

    def add_test(self):
        r = self.rng
        uid = self.new_uid()
        nm = r.choice([self.name("ctN", uid), f'"ctN{uid}Z"', "${p}N%dZ" % uid, f"ct.N{uid}Z-1"])
        rest = [r.choice(EXTRA) for _ in range(r.randint(0, 6))]
        # arguments equal to the test name
        for _ in range(r.choice([0, 0, 1, 2])):
            rest.insert(r.randint(0, len(rest)), nm)
            self.same_as_name += 1
        pos = r.randint(0, len(rest))
        args = rest[:pos] + ["NAME", nm] + rest[pos:]
        self.name_positions.add(min(pos, 5))
        groups = None
        if r.random() < 0.2:
            # a parenthesised group among the arguments, before or after NAME (valid CMake: the parentheses reach the command
            # as arguments). Whether the entry shows the group is not asserted; the plain arguments, NAME and the name are.
            groups = list(args)
            for _ in range(r.choice([1, 1, 2])):
                g = [r.choice(["echo", "hi", "a", "NAME", nm, "x"]) for _ in range(r.randint(0, 3))]
                gp = r.choice([q for q in range(len(groups) + 1) if not (q > 0 and groups[q - 1] == "NAME")])
                groups.insert(gp, g)
            args = groups
            self.grouped += 1
        return Item("add_test", "add_test", args, uid, doc=self.doc(uid), name=nm, rest=rest, grouped=groups)

    def ct_test(self, depth, section=False):
        r = self.rng
        uid = self.new_uid()
        nm = self.name("sec" if section else "tst", uid)
        if r.random() < 0.08:
            nm = r.choice(FRAGMENT_NAMES)        # a name that happens to be a fragment of a keyword
        elif r.random() < 0.15:
            # legal CMake names that are not identifiers of the implementation language
            nm = r.choice([f"tst-N{uid}Z", f"to.N{uid}Z", f"2nd_N{uid}Z", f"c++N{uid}Z", "${pfx}N%dZ" % uid, f"N{uid}Z/x", f"ünïN{uid}Z",
                           f"chk\\.N{uid}Z", f"N{uid}Z\\;v2"])
        if section and self.section_names and r.random() < 0.15:
            nm = r.choice(self.section_names)        # the same section name again, e.g. in another test
            self.reused_names += 1
        if section:
            self.section_names.append(nm)
        ef = r.random() < 0.5
        rest = [r.choice(CT_EXTRA) for _ in range(r.randint(0, 3))]
        if ef:
            rest.insert(r.randint(0, len(rest)), "EXPECTFAIL")
        for _ in range(r.choice([0, 0, 0, 1])):
            rest.insert(r.randint(0, len(rest)), nm)
        pos = r.randint(0, len(rest))
        args = rest[:pos] + ["NAME", nm] + rest[pos:]
        self.name_positions.add(min(pos, 5))
        kind = "ct_add_section" if section else "ct_add_test"
        impl = self.test_impl(depth, nm)
        if self.same_impl_variable:
            # CMakeTest's own idiom: ct_add_test(NAME x) function(${CMAKETEST_TEST}) / ct_add_section(NAME y) function(${CMAKETEST_SECTION}):
            # every implementing definition of the file carries the same (unexpanded) name
            v_ = "${CMAKETEST_SECTION}" if section else "${CMAKETEST_TEST}"
            impl.args[0] = v_
            impl.gt["name"] = v_
            if impl.endargs:
                impl.endargs = [v_]
        it = Item(kind, kind, args, uid, doc=self.doc(uid), impl=impl, name=nm, expectfail=ef)
        it.between = self.gap_items()
        return it


class Prop(BaseProp):
    ID = "C11"
    PIPELINES = True      # a fixed share of the cases goes through cminx.main (-o and stdout) instead of the Documenter
    ANCHORS = ['cminx.aggregator:DocumentationAggregator.process_ct_add_test', 'cminx.aggregator:DocumentationAggregator.process_ct_add_section', 'cminx.aggregator:DocumentationAggregator.process_add_test', 'cminx.documentation_types:CTestDocumentation.process']
    LEVEL = "exploration"
    RULE = ("ct_add_test/ct_add_section/add_test with NAME at every argument position, EXPECTFAIL present/absent at "
            "any position, 0-6 further arguments from a hostile pool (arguments equal to the test name, keywords as "
            "substrings, quoted/bracketed keyword look-alikes; 20% of the add_test commands with parenthesised groups before/after NAME, the group itself accepted shown or dropped), tests with sections nested to depth 3 implemented by "
            "function or macro, documented or not. Distinct = (kinds, NAME positions, flags); non-trivial = at least "
            "one test entry")
    ASSUMPTIONS = ["keywords in upper case; no argument equals a keyword case-insensitively unless it is that keyword",
                   "exactly one NAME keyword per command", "declarations are immediately followed by their definition",
                   "whether an add_test signature shows a parenthesised group is not asserted (shown in place or dropped are both accepted)"]
    HEADLINE = ["ctest_checked", "cmaketest_checked", "args_equal_to_name", "sections_checked"]

    def n_cases(self, tier):
        return 8000 if tier == "quick" else 120000

    def setup_worker(self):
        runner.cminx()

    def run_case(self, idx, rng):
        res = CaseResult()
        b = TBuilder(rng, p_doc=0.5, max_depth=3, max_items=5, compound_generic=False,
                     kinds=["add_test", "add_test", "ct_add_test", "ct_add_test", "function", "plain", "block", "set"],
                     helpers_in_tests=0.3, p_doc_impl=0.15)
        b.same_as_name = 0
        b.same_impl_variable = rng.random() < 0.25
        b.name_positions = set()
        b.section_names = []
        b.reused_names = 0
        mod = b.module()
        if idx % 40 == 6:
            # scale: sections nested tens of levels deep
            mod.items.insert(rng.randint(0, len(mod.items)), b.deep_sections(rng.choice([17, 24, 40])))
            res.count("modules_with_deeply_nested_sections")
        text = render(mod, Layout(rng, comments=0.1, wild=0.2, case="random"))
        exp = expected_entries(mod)
        tgt = [e for e in exp if e.kind in ("ctest", "test", "section")]
        res.sig = sig_hash([[(e.kind, e.item.args.index("NAME"), len(e.item.args), e.sig == "EXPECTFAIL") for e in tgt]])
        res.nontrivial = bool(tgt)
        res.count("args_equal_to_name", b.same_as_name)
        res.count("section_names_used_again", b.reused_names)
        res.count("declarations_without_own_definition", sum(1 for it in mod.walk() if it.kind in ("ct_add_test", "ct_add_section") and it.impl is None))
        for p in b.name_positions:
            res.see("name_positions", p)
        o, _ = runner.document_text(text, runner.make_settings())
        wit = {"text": text}
        if not o.ok:
            res.violate(o.crash_class() or "exit", f"{type(o.exc).__name__}: {str(o.exc)[:200]}", wit)
            return res
        wit["rst"] = o.value
        page = rstscan.Page(o.value)
        obs = [(rstscan.kind_of(n), n) for n in page.entries()]
        obs_t = [(k, n) for k, n in obs if k in ("ctest", "test", "section")]
        # sequence of test-like entries = source order
        want_seq = [(e.kind, e.name) for e in tgt]
        got_seq = [(k, n.arg[:n.arg.index("(")] if "(" in n.arg else n.arg) for k, n in obs_t]      # (no generated name has a parenthesis; signatures may)
        if want_seq != got_seq:
            res.violate("test-entry-sequence", f"expected {want_seq}, got {got_seq}", wit)
        else:
            for e, (k, n) in zip(tgt, obs_t):
                want = f"{e.name}({e.sig})"
                grouped = e.item.gt.get("grouped") if e.kind == "ctest" else None
                if grouped:
                    # groups: accepted as dropped (what the pinned code does) or rendered '(a b)' in place, like generic commands
                    res.count("add_test_with_parenthesised_group")
                    k_name = next(i for i, a in enumerate(grouped) if a == "NAME")      # (no bare NAME in EXTRA)
                    others = grouped[:k_name] + grouped[k_name + 2:]
                    shown = " ".join("(" + " ".join(a) + ")" if isinstance(a, list) else a for a in others)
                    if n.arg == f"{e.name}({shown})":
                        want = n.arg
                if e.kind == "ctest":
                    res.count("ctest_checked")
                else:
                    res.count("cmaketest_checked")
                    if e.kind == "section":
                        res.count("sections_checked")
                if n.arg != want:
                    if e.kind == "ctest":
                        cls = "ctest-signature"
                        if e.name in e.item.gt["rest"]:
                            cls = "ctest-signature-drops-args-equal-to-name"
                    else:
                        cls = "expectfail-flag" if n.arg.startswith(e.name + "(") else "test-name"
                    res.violate(cls, f"{e.item.cmd}({join_args(e.item.args)}): heading {n.arg!r}, expected {want!r}", wit)
        if idx % 100 == 0:
            res.sample = {"text": text[:1000], "expected": [f"{e.kind}: {e.name}({e.sig})" for e in tgt][:6]}
        return res

    def check_observed(self, merged, tier):
        o = merged["obs"]
        out = [f"{k} < 50" for k in self.HEADLINE if o.get(k, 0) < 50]
        return out
