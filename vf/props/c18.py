"""C18 — pages go only where requested: the output directory, or stdout (audit hook + sandbox snapshot + stdout parse)."""
import os

from ..core import BaseProp, CaseResult, sig_hash
from .. import runner, fsrun, gitmatch, monitors
from ..treegen import gen_tree, reference_walk, expected_outputs, stem_of, cmake_text

FOREIGN = ["keep.txt", "other_notes.rst", "foreign_dir/index.rst", "foreign_dir/deep/x.rst", ".hidden", "conf.py"]


def diff_snap(a, b):
    created = sorted(set(b) - set(a))
    removed = sorted(set(a) - set(b))
    changed = sorted(k for k in set(a) & set(b) if a[k][0] == "file" and (a[k][1:3] != b[k][1:3] or a[k][3] != b[k][3]))
    return created, removed, changed


class Prop(BaseProp):
    ID = "C18"
    ANCHORS = ['cminx:document', 'cminx:document_single_file', 'cminx.rstwriter:RSTWriter.write_to_file', 'cminx:main']
    LEVEL = "exploration"
    RULE = ("trees and single files x output directory absolute / relative / inside the input tree / a parent of it / "
            "pre-populated with foreign files (incl. a foreign index.rst in a sub-directory the run does not own) x "
            "settings that affect page content x HOME with/without an existing per-user config directory; with -o: "
            "every audit-hook mutation event and every snapshot difference of the WHOLE sandbox must lie inside the "
            "output directory and foreign files keep hash and mtime; without -o: zero mutation events and stdout == "
            "the pages `-o` writes, directory by directory in sorted name order. Distinct = (input shape, output "
            "mode, settings); non-trivial = run that writes >=2 pages")
    ASSUMPTIONS = ["inputs trigger no diagnostics (no dangling doccomments, no malformed declarations)",
                   "each page on stdout may be followed by one or two newline characters (both readings of 'one empty "
                   "line' accepted)", "order between directories on stdout is not asserted"]
    HEADLINE = ["runs_with_output_dir", "runs_stdout", "audit_events", "snapshot_entries_compared", "foreign_files_checked",
                "stdout_pages_matched"]

    def n_cases(self, tier):
        return 1500 if tier == "quick" else 20000

    def setup_worker(self):
        runner.cminx()

    def run_case(self, idx, rng):
        res = CaseResult()
        single = rng.random() < 0.25
        outmode = rng.choice(["abs", "rel", "nested", "parent", "prepopulated", "prepopulated", "blank-ends"])
        home_has_cfg = rng.random() < 0.5
        recursive = rng.random() < 0.7
        rst = {"file_extensions_in_titles": rng.random() < 0.3, "headers": list(rng.choice(["#*=-", "=", "^~"]))}
        inp_cfg = {"include_undocumented_function": rng.random() < 0.7, "include_undocumented_macro": rng.random() < 0.7,
                   "include_undocumented_option": rng.random() < 0.7}
        prefix = rng.choice([None, "Pfx"])
        auto = rng.random() < 0.7
        if not auto:
            inp_cfg["auto_exclude_directories_without_cmake"] = False
        self._sig0 = [single, outmode, home_has_cfg, recursive, prefix, sorted(inp_cfg.items())]
        res.sig = sig_hash(self._sig0)
        res.see("output_modes", outmode)
        with runner.sandbox() as sb:
            work = os.path.join(sb, "work")
            inp = os.path.join(work, "proj")
            home = os.path.join(sb, "home")
            os.makedirs(home)
            if home_has_cfg:
                os.makedirs(os.path.join(home, ".config", "cminx"))
            tree = gen_tree(rng, max_depth=rng.choice([0, 1, 3]), rich=True, case_twins=rng.random() < 0.3)
            if rng.random() < 0.25:
                # some files use CRLF line endings (Windows checkout): stdout and -o must still agree byte for byte
                for f_ in list(tree.files):
                    if f_.lower().endswith(".cmake") and rng.random() < 0.5:
                        tree.files[f_] = tree.files[f_].replace("\n", "\r\n")
                res.count("trees_with_crlf_files")
            if rng.random() < 0.35:
                # files that open with a module doccomment, named ('@module <name>') or not: whatever is said about them while
                # they are processed, stdout carries the pages and nothing else
                for f_ in list(tree.files):
                    if f_.lower().endswith(".cmake") and tree.files[f_] and rng.random() < 0.5:
                        nm = rng.choice(["", " named.mod_" + "".join(c if c.isalnum() else "_" for c in f_)])
                        tree.files[f_] = f"#[[[ @module{nm}\n# About this module.\n#]]\n" + tree.files[f_]
                res.count("trees_with_module_doccomments")
            if not single and rng.random() < 0.15 and len(tree.dirs) > 1:
                # the input directory itself holds no CMake file (only its sub-directories do)
                for f_ in tree.files_of(""):
                    if f_.lower().endswith(".cmake"):
                        del tree.files[f_]
                res.count("trees_without_cmake_file_at_the_top")
            if rng.random() < 0.05:
                # scale: one module whose page is larger than any stdio buffer
                big_ = "".join(f"#[[[\n# Documented function number {k_} of a very large module.\n#\n# :param x: a parameter\n#]]\nfunction(big_fn_{k_} x)\nendfunction()\n" for k_ in range(700))
                tree.files[os.path.join(rng.choice(sorted(tree.dirs)), "m_big.cmake")] = big_
                res.count("trees_with_a_page_larger_than_64KiB")
            if rng.random() < 0.1:
                # a file whose whole name is the extension
                d_ = rng.choice(sorted(tree.dirs))
                tree.files[os.path.join(d_, ".cmake")] = cmake_text(os.path.join(d_, "dotcmake"), rich=True)
                res.count("trees_with_a_file_named_dot_cmake")
            linked = rng.random() < 0.3 and any(f_.endswith(".cmake") for f_ in tree.files_of(""))
            if linked:
                tree.files["linked_in.cmake"] = cmake_text("linked_in.cmake", rich=True)
            tree.write(inp)
            res.sig = sig_hash(self._sig0 + [tree.shape(), linked])
            if linked:
                # the entry is a symbolic link to a regular file outside the input tree
                os.makedirs(os.path.join(sb, "link_targets"))
                tgt = os.path.join(sb, "link_targets", "real_file.cmake")
                os.replace(os.path.join(inp, "linked_in.cmake"), tgt)
                os.symlink(tgt, os.path.join(inp, "linked_in.cmake"))
                res.count("runs_with_symlinked_file")
            os.makedirs(os.path.join(sb, "elsewhere"))
            with open(os.path.join(sb, "elsewhere", "bystander.txt"), "w") as f:
                f.write("x")
            cfg = os.path.join(sb, "cfg", "s.yaml")
            fsrun.write_yaml(cfg, {"rst": rst, "input": inp_cfg})
            out_abs = {"abs": os.path.join(sb, "out", "docs"), "rel": os.path.join(work, "build", "docs"),
                       "nested": os.path.join(inp, "docs_out"), "parent": work,
                       "prepopulated": os.path.join(sb, "out", "docs"),
                       # a directory name that ends (and one that starts) with a blank, next to a directory of the trimmed name
                       "blank-ends": os.path.join(sb, "out", rng.choice(["api docs ", " docs", "docs  "]))}[outmode]
            if outmode == "blank-ends":
                os.makedirs(os.path.join(sb, "out", os.path.basename(out_abs).strip()))
            foreign = {}
            if outmode == "prepopulated":
                for fn in FOREIGN:
                    p = os.path.join(out_abs, fn)
                    os.makedirs(os.path.dirname(p), exist_ok=True)
                    with open(p, "w") as f:
                        f.write("foreign " + fn)
            if single and rng.random() < 0.25:
                # a lone input that is not called *.cmake, documented into the directory it lives in: the page goes next to it
                src = rng.choice(["CMakeLists.txt", "BuildHelpers", "Toolchain.in"])
                target = os.path.join(inp, src)
                with open(target, "w") as f:
                    f.write(cmake_text(src, rich=True))
                tree.files[src] = cmake_text(src, rich=True)
                if outmode not in ("prepopulated",):
                    out_abs = inp
                    outmode = "input-dir-itself"
                res.count("single_inputs_not_named_cmake")
            elif single:
                src = rng.choice(sorted(f for f in tree.files if f.endswith(".cmake")))
                target = os.path.join(inp, src)
            else:
                target = inp
            base = [target] + (["-r"] if (recursive and not single) else []) + ["-s", cfg] + (["-p", prefix] if prefix else [])
            out_arg = out_abs if outmode in ("abs", "prepopulated", "parent", "blank-ends") else os.path.relpath(out_abs, work)
            # ---------- run 1: stdout mode (must not write anything)
            fr0 = fsrun.run_monitored(sb, base, work, home, order=fsrun.make_order(rng, rng.choice(fsrun.ORDER_MODES[:4])), snapshot_root=sb)
            res.count("runs_stdout")
            wit = {"argv": base, "outmode": outmode, "home_has_cfg": home_has_cfg, "tree_files": sorted(tree.files)}
            if not fr0.outcome.ok:
                res.violate(fr0.outcome.crash_class() or f"exit:{fr0.outcome.exit_code}", str(fr0.outcome.exc)[:200], wit)
                return res
            self.judge_events(res, sb, home, None, fr0, wit, "stdout-mode", home_has_cfg)
            os.makedirs(os.path.join(home, ".config", "cminx"), exist_ok=True) if False else None
            # the output directory may already hold pages of an earlier, longer revision of the same files
            if outmode == "prepopulated" and rng.random() < 0.5:
                saved = {}
                for f_ in [x for x in tree.files if x.lower().endswith(".cmake")]:
                    pth = os.path.join(inp, f_)
                    if os.path.islink(pth):
                        continue
                    saved[pth] = open(pth, "rb").read()
                    with open(pth, "ab") as fh:
                        fh.write(b"\n#[[[\n# removed in the next revision " + b"x" * 200 + b"\n#]]\nfunction(removed_later a b)\nendfunction()\n")
                runner.run_main(base + ["-o", out_arg], cwd=work, home=home)
                for pth, data in saved.items():
                    with open(pth, "wb") as fh:
                        fh.write(data)
                res.count("output_dir_filled_by_earlier_longer_revision")
            # ---------- run 2: -o
            home_state = os.path.isdir(os.path.join(home, ".config", "cminx"))
            fr = fsrun.run_monitored(sb, base + ["-o", out_arg], work, home, order=fsrun.make_order(rng, rng.choice(fsrun.ORDER_MODES[:4])), snapshot_root=sb)
            res.count("runs_with_output_dir")
            wit2 = dict(wit, argv=base + ["-o", out_arg])
            if not fr.outcome.ok:
                res.violate(fr.outcome.crash_class() or f"exit:{fr.outcome.exit_code}", str(fr.outcome.exc)[:200], wit2)
                return res
            self.judge_events(res, sb, home, out_abs, fr, wit2, "output-dir", home_state)
            res.count("audit_events", len(fr.audit) + len(fr0.audit))
            # the sources themselves are never written to, wherever the output directory is (also when it is their own directory)
            for f_ in tree.files:
                rel = os.path.relpath(os.path.join(inp, f_), sb)
                if rel in fr.before:
                    res.count("input_files_compared_before_after")
                    if fr.after.get(rel) != fr.before[rel]:
                        res.violate("input-file-changed-by-the-run", f"{f_}: {fr.before[rel]} -> {fr.after.get(rel)}", wit2)
            # foreign files untouched
            if outmode == "prepopulated":
                for fn in FOREIGN:
                    rel = os.path.relpath(os.path.join(out_abs, fn), sb)
                    res.count("foreign_files_checked")
                    if rel not in fr.after or fr.before[rel] != fr.after[rel]:
                        res.violate("foreign-file-in-output-dir-touched", f"{fn}: {fr.before.get(rel)} -> {fr.after.get(rel)}", wit2)
            # ---------- stdout == pages
            if single:
                pages = [os.path.join(out_abs, stem_of(os.path.basename(target)) + ".rst")]
                blocks = [[pages[0]]]
            else:
                ref = reference_walk(tree, inp, recursive, auto, gitmatch.Spec([]))
                if auto and not any(f_.endswith(".cmake") for f_ in tree.files_of("")):
                    # the input directory itself is skipped: without -r nothing at all is documented
                    if not recursive:
                        ref.pages = []
                bydir = {}
                for p in ref.pages:
                    bydir.setdefault(os.path.dirname(p), []).append(p)
                blocks = [[os.path.join(out_abs, os.path.dirname(p), stem_of(os.path.basename(p)) + ".rst") for p in sorted(ps)]
                          for d, ps in sorted(bydir.items())]
            npages = sum(len(b) for b in blocks)
            res.nontrivial = npages >= 2
            texts = []
            ok = True
            for b in blocks:
                t = []
                for p in b:
                    if not os.path.exists(p):
                        res.violate("page-missing-in-output-run", os.path.relpath(p, out_abs), wit2)
                        ok = False
                        continue
                    t.append(open(p, encoding="utf-8", newline="").read())
                texts.append(t)
            def match_stdout(text_, count=True):
                """consumes `text_` directory block by directory block (blocks in any order, pages of a block in sorted order,
                each page followed by one or two line ends); -> (unparsed rest, blocks that were not found)"""
                rest = text_
                remaining = list(texts)
                progress = True
                while rest and remaining and progress:
                    progress = False
                    for bi, t in enumerate(remaining):
                        pos = 0
                        good = True
                        for page in t:
                            if rest.startswith(page, pos):
                                pos += len(page)
                                k = 0
                                while k < 2 and rest.startswith("\n", pos):
                                    pos += 1
                                    k += 1
                                if k == 0:
                                    good = False
                                    break
                            else:
                                good = False
                                break
                        if good and t:
                            rest = rest[pos:]
                            remaining.pop(bi)
                            if count:
                                res.count("stdout_pages_matched", len(t))
                            progress = True
                            break
                return rest, [t for t in remaining if t]
            self._match_stdout = match_stdout if ok else None
            if ok:
                rest, remaining = match_stdout(fr0.outcome.stdout)
                if rest.strip() != "" or remaining:
                    cls = "stdout-extra-text" if not remaining else "stdout-page-missing-or-misordered"
                    if "index" in rest and "toctree" in rest:
                        cls = "stdout-contains-index-page"
                    res.violate(cls, f"unparsed stdout {rest[:200]!r}; {len(remaining)} directory blocks unmatched",
                                dict(wit, stdout=fr0.outcome.stdout[:3000]))
            # the printed pages are the same text whatever standard output is attached to: a terminal 40 columns wide, a pipe
            # with ordinary buffering (pages larger than a buffer included), COLUMNS set in the environment
            if idx % 12 == 3:
                for how in ("tty", "pipe"):
                    if how == "tty":
                        rc_, so_, se_ = runner.run_cli_pty(base, cwd=work, home=home, on_tty=("stdout", "stderr"), cols=40)
                    else:
                        env_ = {k_: v_ for k_, v_ in os.environ.items() if k_ != "PYTHONUNBUFFERED"}
                        # (... and Python's development mode switched on: warnings of the interpreter belong on standard error)
                        rc_, so_, se_ = runner.run_cli(base, cwd=work, home=home, env_extra={"COLUMNS": "30", "LINES": "7", "PYTHONUNBUFFERED": "",
                                                                                              "PYTHONDEVMODE": "1", "PYTHONWARNINGS": "default"})
                    res.count("stdout_runs_on_a_" + how)
                    if rc_ != 0:
                        res.violate(f"stdout-run-failed:{how}", se_[-300:], wit)
                    elif self._match_stdout is not None:
                        rest_, remaining_ = self._match_stdout(so_, count=False)
                        if rest_.strip() != "" or remaining_:
                            res.violate(f"stdout-text-depends-on-what-stdout-is:{how}", f"unparsed {rest_[:160]!r}; {len(remaining_)} "
                                        f"directory blocks not found", dict(wit, stdout=so_[:1500]))
            # the other direction: every page that the -o run left behind (index pages and foreign files apart) is one of the
            # pages standard output carries
            known = {os.path.normpath(p_) for b_ in blocks for p_ in b_}
            for rel_, meta_ in fr.after.items():
                ap_ = os.path.normpath(os.path.join(sb, rel_))
                if ap_.startswith(os.path.normpath(out_abs) + os.sep) and ap_.endswith(".rst") and os.path.basename(ap_) != "index.rst" \
                        and rel_ not in fr.before and ap_ not in known:
                    res.violate("page-written-with-o-but-not-printed-without", os.path.relpath(ap_, out_abs), wit2)
            if idx % 40 == 0:
                res.sample = {"argv": wit2["argv"], "outmode": outmode, "audit_events": [(e, os.path.relpath(p, sb)) for e, p, _ in fr.audit][:12]}
        return res

    def judge_events(self, res, sb, home, out_abs, fr, wit, tag, home_has_cfg):
        created, removed, changed = diff_snap(fr.before, fr.after)
        res.count("snapshot_entries_compared", len(fr.after))
        cfg_dirs = {os.path.join(home, ".config"), os.path.join(home, ".config", "cminx")}

        def inside(p):
            return out_abs is not None and (p == out_abs or p.startswith(out_abs + os.sep) or
                                            (out_abs + os.sep).startswith(p + os.sep) and not os.path.exists(p + "/.pre"))
        for ev, p, _ in fr.audit:
            if ev == "monitor-error":
                res.violate("monitor-error", p, wit)
                continue
            rp = os.path.realpath(p)
            if ev == "os.mkdir" and os.path.relpath(rp, sb) in fr.before and fr.before[os.path.relpath(rp, sb)][0] == "dir":
                res.count("mkdir_attempts_on_existing_dirs_ignored")
                continue        # makedirs(exist_ok=True) probing an existing directory: the event is the attempt, nothing changed
            if out_abs is not None and (rp == out_abs or rp.startswith(out_abs + os.sep)):
                continue
            if out_abs is not None and ev == "os.mkdir" and (out_abs + os.sep).startswith(rp + os.sep):
                continue        # creating the missing parents of the output directory
            if ev == "os.mkdir" and rp in cfg_dirs and not home_has_cfg:
                res.violate("confuse-creates-user-config-dir", f"{ev} {os.path.relpath(rp, sb)} ({tag})", wit)
                continue
            res.violate(f"write-outside-output-dir:{tag}:{ev}", f"{ev} {os.path.relpath(rp, sb)}", dict(wit, audit=fr.audit[:20]))
        for rel in created + removed + changed:
            p = os.path.join(sb, rel)
            if out_abs is not None and (p == out_abs or p.startswith(out_abs + os.sep) or (out_abs + os.sep).startswith(p + os.sep)):
                if rel in removed or (rel in changed and out_abs == os.path.join(sb, "work") and rel.startswith("work/proj")):
                    res.violate(f"input-or-existing-file-modified:{tag}", rel, wit)
                continue
            if p in cfg_dirs and not home_has_cfg and rel in created:
                continue      # reported through the audit event
            kind = "created" if rel in created else "removed" if rel in removed else "changed"
            res.violate(f"snapshot-diff-outside-output-dir:{tag}:{kind}", rel, wit)

    def check_observed(self, merged, tier):
        o = merged["obs"]
        return [f"{k} < 30" for k in self.HEADLINE if o.get(k, 0) < 30]
