"""C20 — RSTWriter serialisation is pure and keeps nested content indented (API programs + object-graph snapshots)."""
import json
import re

from ..core import BaseProp, CaseResult, sig_hash
from .. import runner

ID = re.compile(r"\{T(\d+)\}")
TITLES = ["Title", "t", "A longer title with spaces", "ünï ✓", "日本語", "x" * 40, "###", "a.b-c", "", "with *stars* and `ticks`", "pipe | and \\ backslash", "_under_ :role:`x`"]
HEADERS = [list("#*=-_~!&@^"), ["="], ["*", "#"], list("-~^"), ["+", "=", "-"], list("=-=-"), ["#", "#", "*"], list("~~~~")]
TEXTS = ["plain", "  leading two", "        eight", "a\nb", "first\n   indented second\nthird", "tail  ", ":looks: like field",
         ".. looks:: like directive", "* bullet-like", "ünï ✓", "\ttab", "", "line\n\nwith blank",
         # characters that str.splitlines() takes for line ends: inside a paragraph line they are ordinary characters
         "form\x0cfeed", "next\x85line", "ls\u2028sep", "ps\u2029sep", "vt\x0btab", "fs\x1csep"]


def snap(obj, depth=0, seen=None):
    """Canonical structure of the writer's object graph (settings excluded)."""
    seen = seen if seen is not None else set()
    if isinstance(obj, (str, int, float, bool)) or obj is None:
        return obj
    if isinstance(obj, (list, tuple)):
        return [snap(x, depth + 1, seen) for x in obj]
    if isinstance(obj, dict):
        return {str(k): snap(v, depth + 1, seen) for k, v in obj.items()}
    if id(obj) in seen or depth > 60:
        return "<cycle>"
    seen = seen | {id(obj)}
    d = {"__class__": type(obj).__name__}
    for k, v in sorted(vars(obj).items()) if hasattr(obj, "__dict__") else []:
        if k == "settings":
            continue
        d[k] = snap(v, depth + 1, seen)
    return d


class MNode:
    """Model of one container (root writer or directive)."""

    def __init__(self, depth, hid=None, name=None, args=()):
        self.depth = depth
        self.hid = hid
        self.name = name
        self.args = args
        self.options = []      # (name, value, id)
        self.elems = []        # ("text", [(id, line)...]) | ("field", id, name, text) | ("list", kind, [(id, item)]) | ("dir", MNode)
        #                        | ("sec", MNode) for a sub-section writer (depth 0, .sec_title/.sec_level/.sec_id set)
        self.sec_level = None


class Prop(BaseProp):
    ID = "C20"
    ANCHORS = ['cminx.rstwriter:get_indents', 'cminx.rstwriter:Directive.to_text', 'cminx.rstwriter:RSTWriter.to_text', 'cminx.rstwriter:Heading.build_heading_string', 'cminx.rstwriter:Directive.option', 'cminx.rstwriter:RSTWriter.clear']
    LEVEL = "exploration"
    RULE = ("random programs over the public writer API (text incl. multi-line with own leading spaces, field, "
            "bulleted/enumerated lists, directives nested to depth 8 with arguments, options, sub-sections (nested, re-titled), title changes, clear(), "
            "str()/to_text()/write_to_file(path | file object) at random points 1-3 times in a row) for 9 titles x 5 header lists x section levels; "
            "monitors: object-graph snapshot before/after every serialisation, consecutive serialisations equal, "
            "title frame, every id-carrying line indented by exactly 3*depth, options directly under their heading, "
            "ids in depth-first insertion order. Distinct = operation-kind sequence; non-trivial = >=1 directive of "
            "depth>=1 and >=2 serialisations")
    ASSUMPTIONS = ["blank-line conventions are not asserted", "multi-line fields and list items are not generated",
                   "clear() on directives: only that later additions appear and earlier content does not",
                   "tables/doctests are outside the quantifier; sub-sections: only the title frame, order and purity are asserted"]
    HEADLINE = ["programs", "serialisations", "purity_snapshots_compared", "id_lines_checked", "option_blocks_checked",
                "title_changes", "clears"]

    def n_cases(self, tier):
        return (15000 if tier == "quick" else 250000) + 1      # last case: contracts under the repository's own tests

    def setup_worker(self):
        runner.cminx()

    def teardown_worker(self):
        import shutil
        if hasattr(self, "_tmpd"):
            shutil.rmtree(self._tmpd, ignore_errors=True)

    def contracts_case(self, res):
        """Runtime contracts on the real functions while the repository's own tests run (vf/pytest_contracts.py)."""
        from ..contracts_run import run_repo_tests
        rc, out, data = run_repo_tests(['tests/unit_tests/test_rstwriter.py', 'tests/unit_tests/test_documenter.py', 'tests/test_samples'])
        res.sig = "contracts-under-repo-tests"
        res.nontrivial = True
        if data is None:
            res.skipped = "contract-run-produced-no-report"
            return res
        res.see("contract_backend", "icontract" if data.get("icontract") else "in-house wrapper")
        for k, v in data["evaluations"].items():
            res.count("contract_evaluations_under_repo_tests:" + k, v)
        for v in data["violations"]:
            if v["kind"] in ('serialisation-mutates-document', 'serialisation-not-repeatable', 'title-frame'):
                res.violate("contract-under-repo-tests:" + v["kind"], v["detail"], {"tests": ['tests/unit_tests/test_rstwriter.py', 'tests/unit_tests/test_documenter.py', 'tests/test_samples']})
        res.sample = {"contracts_under_repo_tests": data["evaluations"], "pytest_tail": out[-120:]}
        return res

    def run_case(self, idx, rng):
        if idx == self.n_cases(self.tier) - 1:
            return self.contracts_case(CaseResult())
        from cminx.rstwriter import RSTWriter
        res = CaseResult()
        headers = rng.choice(HEADERS)
        default_headers = rng.random() < 0.12
        if default_headers:
            # no header list configured: the documented default sequence applies (whatever earlier documents of this
            # process were configured with)
            headers = list("#*=-_~!&@^")
        self.headers_now = headers
        level = rng.randrange(len(headers))
        settings = runner.make_settings(rst={"headers": None if default_headers else headers})
        res.see("header_configuration", "default (None)" if default_headers else "configured")
        title = rng.choice(TITLES)
        counter = [0]
        ops = []

        def nid():
            counter[0] += 1
            return counter[0]
        w = RSTWriter(title, level, settings)
        root = MNode(0)
        root.sec_level = level
        live = [(w, root)]          # containers that can receive operations
        state = {"title": title}

        def serialise():
            k = rng.randint(1, 3)
            before = json.dumps(snap(w), sort_keys=True, ensure_ascii=False)
            outs = []
            for j in range(k):
                form = rng.choice(["str", "to_text", "str", "to_text", "file-object", "path"])
                res.see("serialisation_forms", form)
                if form == "str":
                    outs.append(str(w))
                elif form == "to_text":
                    outs.append(w.to_text())
                elif form == "file-object":
                    import io
                    buf = io.StringIO()
                    w.write_to_file(buf)
                    outs.append(buf.getvalue())
                else:
                    # into a file that may already hold an earlier, longer serialisation of this document
                    import os
                    import tempfile
                    if not hasattr(self, "_tmpd"):
                        self._tmpd = tempfile.mkdtemp(prefix="vfc20_")
                    pth = os.path.join(self._tmpd, f"doc{os.getpid()}.rst")
                    w.write_to_file(rng.choice([pth, pth, " " + pth + " "]))
                    with open(pth, encoding="utf-8", newline="") as fh:
                        outs.append(fh.read())
                after = json.dumps(snap(w), sort_keys=True, ensure_ascii=False)
                res.count("purity_snapshots_compared")
                res.count("serialisations")
                if after != before:
                    res.violate("serialisation-mutates-document", f"object graph changed by serialisation #{j + 1}",
                                {"ops": ops[-30:]})
                    before = after
            if len(set(outs)) != 1:
                res.violate("serialisation-not-repeatable", "consecutive serialisations differ", {"ops": ops[-30:], "outs": outs[:2]})
            # any container of the document (a nested directive, a sub-section) can be serialised on its own: all forms agree
            if len(live) > 1 and rng.random() < 0.5:
                import io
                sub, _mn = rng.choice(live[1:])
                a_ = str(sub)
                b_ = sub.to_text()
                buf = io.StringIO()
                sub.write_to_file(buf)
                res.count("nested_containers_serialised")
                if not (a_ == b_ == buf.getvalue()):
                    res.violate("serialisation-forms-disagree:nested-container",
                                f"{type(sub).__name__}: str/to_text/write_to_file give {len({a_, b_, buf.getvalue()})} different texts",
                                {"ops": ops[-30:], "str": a_[:600], "write_to_file": buf.getvalue()[:600]})
            self.check_text(res, outs[0], root, state["title"], headers[level], ops)

        n_ops = rng.randint(3, 40)
        if idx % 600 == 77:
            n_ops = rng.choice([700, 1300])          # scale: containers with several hundred elements
        for _ in range(n_ops):
            obj, mn = rng.choice(live)
            if n_ops >= 300 and len(live) > 1 and rng.random() < 0.8:
                obj, mn = live[1]                    # (... most of them in ONE nested directive, which also has options)
            op = rng.choice(["text", "text", "field", "bullets", "enum", "directive", "directive", "option", "title", "clear",
                             "str", "str", "rename", "section", "sectitle"])
            d = mn.depth
            if n_ops >= 300 and op in ("clear", "directive", "section") and rng.random() < 0.9:
                op = "text"
            if op == "text":
                t = rng.choice(TEXTS)
                i = nid()
                lines = t.split("\n")
                lines = [f"{l}{{T{i}}}" if k == 0 else l for k, l in enumerate(lines)]
                # ids on every non-empty line
                ids = []
                for k in range(len(lines)):
                    if k > 0 and lines[k] != "":
                        j = nid()
                        lines[k] = lines[k] + f"{{T{j}}}"
                        ids.append(j)
                obj.text("\n".join(lines))
                mn.elems.append(("text", [(int(ID.search(l).group(1)), l) for l in lines if ID.search(l)]))
            elif op == "field":
                i = nid()
                nm = rng.choice(["param x", "type", "Default value", "returns"])
                obj.field(nm, f"value {{T{i}}}")
                mn.elems.append(("field", i, nm))
            elif op in ("bullets", "enum"):
                items = []
                for _k in range(rng.choice([1, 2, 3, 3, 10, 12, 101])):
                    if _k and rng.random() < 0.1:
                        items.append((None, ""))            # an item without text is an item all the same
                        continue
                    i = nid()
                    items.append((i, f"item {{T{i}}}"))
                (obj.bulleted_list if op == "bullets" else obj.enumerated_list)(*[t for _, t in items])
                mn.elems.append(("list", op, items))
            elif op == "directive":
                if d >= 8:
                    continue
                i = nid()
                name = rng.choice(["note", "function", "py:class", "toctree", "warning", "code-block"])
                args = rng.choice([(f"arg{{T{i}}}",), (f"f(a b){{T{i}}}", "second"), (f"{{T{i}}}",)])
                nd = obj.directive(name, *args)
                child = MNode(d + 1, i, name, args)
                mn.elems.append(("dir", child))
                live.append((nd, child))
            elif op == "option":
                if mn.hid is None:
                    continue
                i = nid()
                nm = rng.choice(["maxdepth", "value", "noindex"])
                obj.option(nm, f"v{{T{i}}}")
                mn.options.append((nm, i))
            elif op == "rename":
                # the title of a nested directive is its name: changing it re-builds the directive heading
                if mn.hid is None:
                    continue
                mn.name = rng.choice(["note", "warning", "function", "py:method", "tip"])
                obj.title = mn.name
                res.count("directive_renames")
            elif op == "section":
                # a sub-section: its title is framed by the configured character of the next section level
                if mn.sec_level is None or mn.sec_level + 1 >= len(headers):
                    continue
                i = nid()
                t = rng.choice(["Sub", "a longer sub title", "ünï", "x"]) + f" {{T{i}}}"
                sub = obj.section(t)
                child = MNode(0)
                child.sec_level, child.sec_title, child.sec_id = mn.sec_level + 1, t, i
                mn.elems.append(("sec", child))
                live.append((sub, child))
                res.count("sections_added")
            elif op == "sectitle":
                if mn.sec_level is None or mn is root:
                    continue
                mn.sec_title = rng.choice(["Renamed", "r", "renamed to something long"]) + f" {{T{mn.sec_id}}}"
                obj.title = mn.sec_title
                res.count("section_title_changes")
            elif op == "title":
                state["title"] = rng.choice(TITLES)
                w.title = state["title"]
                res.count("title_changes")
            elif op == "clear":
                obj.clear()
                res.count("clears")
                # containers below are gone from the document (but may still be written to: harmless, drop them)
                dropped = set()

                def collect(m):
                    for e in m.elems:
                        if e[0] in ("dir", "sec"):
                            dropped.add(id(e[1]))
                            collect(e[1])
                collect(mn)
                mn.elems = []
                live[:] = [(o_, m_) for o_, m_ in live if id(m_) not in dropped]
            else:
                serialise()
            ops.append(op)
        serialise()
        res.count("programs")
        res.sig = sig_hash(ops)
        maxd = max(m.depth for _, m in live)
        res.see("max_depth", maxd)
        res.nontrivial = maxd >= 1 and ops.count("str") >= 1
        if idx % 300 == 0:
            res.sample = {"ops": ops, "title": state["title"], "headers": headers, "level": level, "text": str(w)[:800]}
        return res

    def check_text(self, res, text, root, title, hc, ops):
        lines = text.split("\n")
        wit = {"ops": ops[-40:], "text": text[:3000]}
        frame = hc * len(title)
        if lines[:4] != ["", frame, title, frame]:
            res.violate("title-frame", f"first lines {lines[:4]!r}, expected ['', {frame!r}, {title!r}, {frame!r}]", wit)
        # expected id sequence, depth first
        exp = []          # (id, depth_indent, kind, extra)

        def walk(m):
            for e in m.elems:
                if e[0] == "text":
                    for i, l in e[1]:
                        exp.append((i, m.depth, "text", l))
                elif e[0] == "field":
                    exp.append((e[1], m.depth, "field", e[2]))
                elif e[0] == "list":
                    for k_, (i, t) in enumerate(e[2]):
                        if i is not None:
                            exp.append((i, m.depth, "list", (t, e[1], k_)))
                elif e[0] == "sec":
                    exp.append((e[1].sec_id, 0, "section", e[1]))
                    walk(e[1])
                else:
                    c = e[1]
                    exp.append((c.hid, m.depth, "heading", c))
                    for nm, i in c.options:
                        exp.append((i, c.depth, "option", nm))
                    walk(c)
        walk(root)
        got = []
        for ln, l in enumerate(lines):
            for m in ID.finditer(l):
                got.append((int(m.group(1)), ln, l))
        if [g[0] for g in got] != [e[0] for e in exp]:
            gi, ei = [g[0] for g in got], [e[0] for e in exp]
            if sorted(gi) == sorted(ei):
                cls = "element-order"
            elif set(gi) - set(ei):
                cls = "cleared-or-foreign-element-present"
            elif len(gi) != len(set(gi)):
                cls = "element-duplicated"
            else:
                cls = "element-missing"
            res.violate(cls, f"id sequence {gi[:30]} expected {ei[:30]}", wit)
            return
        for (i, ln, l), (_, d, kind, extra) in zip(got, exp):
            res.count("id_lines_checked")
            ind = " " * (3 * d)
            if kind == "section":
                res.count("section_titles_checked")
                fr = self.headers_now[extra.sec_level] * len(extra.sec_title)
                around = [lines[ln - 1] if ln else None, l, lines[ln + 1] if ln + 1 < len(lines) else None]
                if around != [fr, extra.sec_title, fr]:
                    res.violate("section-title-frame", f"sub-section of level {extra.sec_level}: lines {around!r}, expected "
                                f"{[fr, extra.sec_title, fr]!r}", wit)
            elif kind == "text":
                if l != ind + extra:
                    res.violate("paragraph-line-indent", f"line {l!r}, expected {ind + extra!r} (depth {d})", wit)
            else:
                first = {"field": ":", "list": None, "heading": ".", "option": ":"}[kind]
                if not l.startswith(ind) or l[len(ind):len(ind) + 1] in (" ", ""):
                    res.violate(f"{kind}-indent", f"line {l!r} must start with exactly {3 * d} spaces (depth {d})", wit)
                elif first and l[len(ind)] != first:
                    res.violate(f"{kind}-shape", f"line {l!r}", wit)
                if kind == "list":
                    # the marker: '* ' for bulleted lists, the item's position (counting every item, also one without text) for
                    # enumerated ones
                    t_, op_, k_ = extra
                    mark = "* " if op_ == "bullets" else f"{k_ + 1}. "
                    res.count("list_markers_checked")
                    if not (l[len(ind):].startswith(mark + t_) or (op_ == "enum" and l[len(ind):].startswith("#. " + t_))):
                        res.violate(f"list-item-marker:{op_}", f"line {l!r}: item {k_ + 1} of the list should read {mark + t_!r}", wit)
                if kind == "heading":
                    c = extra
                    if not l[len(ind):].startswith(f".. {c.name}:: "):
                        res.violate("directive-heading-name", f"line {l!r}, directive is named {c.name!r}", wit)
                    res.count("option_blocks_checked")
                    want = [oi for _, oi in c.options]
                    follow = []
                    j = ln + 1
                    while j < len(lines) and ID.search(lines[j]) and lines[j].strip().startswith(":") and \
                            int(ID.search(lines[j]).group(1)) in want:
                        follow.append(int(ID.search(lines[j]).group(1)))
                        j += 1
                    if follow != want:
                        res.violate("options-not-directly-after-heading", f"heading {l!r}: option ids following {follow}, "
                                    f"expected {want}", wit)

    def check_observed(self, merged, tier):
        o = merged["obs"]
        return [f"{k} < 100" for k in self.HEADLINE if o.get(k, 0) < 100]
