"""C04 — layout, comments and command-name case do not affect the output (metamorphic)."""
from ..core import BaseProp, CaseResult, sig_hash, case_rng
from .. import runner, rstscan, oracle
from ..modgen import Layout, render, expected_entries
from ..genmod import Builder

SHAPES = ["#", "# text set(x 1)", "#[==", "#[==xx ]]", "#[[ br0 ]]", "#[=[ br1 ]] ]=]", "#[==[\n multi #[[[ \n]==]",
          "#[===[ function( ]===]", "#]] x", "##[[[ fake"]


class OneGap(Layout):
    """Plain layout, except that exactly one gap (by running index) receives one given comment."""

    def __init__(self, target, shape):
        super().__init__(None)
        self.target, self.shape, self.n, self.hit = target, shape, 0, False

    def _here(self):
        self.n += 1
        if self.n - 1 == self.target:
            self.hit = True
            return True
        return False

    def interline(self):
        if self._here():
            return self.shape + "\n"
        return ""

    def arg_gap(self, mandatory):
        if self._here():
            line = self.shape.startswith("#") and not self.shape.startswith("#[") or self.shape in ("#[==", "#[==xx ]]")
            return " " + self.shape + ("\n" if line else " ")
        return " " if mandatory else ""


def norm_crlf(s):
    s = s.replace("\r", "")
    return "\n".join(l for l in s.split("\n") if l.strip() != "")


class Prop(BaseProp):
    ID = "C04"
    PIPELINES = True      # a fixed share of the cases goes through cminx.main (-o and stdout) instead of the Documenter
    ANCHORS = ['cminx.aggregator:DocumentationAggregator.clean_doc_lines', 'cminx.aggregator:DocumentationAggregator.enterCommand_invocation']
    LEVEL = "exploration"
    RULE = ("one abstract module rendered under k layouts (inter-token spaces/tabs/newlines, 20 line-comment and 13 "
            "bracket-comment texts of level 0-3 at every gap incl. between doccomment and command and inside argument "
            "lists, uniform doccomment re-indentation by spaces/tabs, lower/upper/mixed command names, LF vs CRLF); "
            "reST bytes must be identical (CRLF: after deleting CR and whitespace-only lines); thorough tier inserts "
            "each of 10 comment shapes at every single gap of 20 modules (exhaustive gap x shape). Distinct = module "
            "shape; non-trivial = at least 2 entries and 2 differing layouts")
    ASSUMPTIONS = ["layouts keep the token sequence: >=1 whitespace between arguments, identifier..'(' separated by "
                   "spaces/tabs only, level-0 bracket comments never start with '[' (would be '#[[[')",
                   "base layout additionally checked against the reference entry model"]
    HEADLINE = ["layout_pairs_compared", "crlf_pairs", "comments_inserted", "single_gap_insertions"]

    NR = {"quick": 1500, "thorough": 15000}

    def n_cases(self, tier):
        return self.NR[tier] + (0 if tier == "quick" else 20 * len(SHAPES))

    def setup_worker(self):
        runner.cminx()

    def module(self, rng):
        b = Builder(rng, p_doc=0.6, max_depth=3, max_items=6)
        mod = b.module(module_doc=rng.random() < 0.3, module_name=rng.choice(["", "modN0Z"]))
        if rng.random() < 0.012:
            # scale: a module of more than 64 KiB with text outside ASCII in its doccomments (where a block of bytes ends is
            # decided by the layout alone)
            b.mkdoc = lambda r, uid: [f"{{L{uid}.{k}}} Grüße – größer ✓ 日本語" for k in range(r.randint(1, 4))]
            mod.items = b._fix_dangling(mod.items + b.items(0, n=rng.randint(160, 260)), 0)
            mod.big = True
        # free-form doccomment bodies (the project documents the leaderless style): leaderless lines with their own
        # relative indentation, leaders preceded by extra blanks, '#' without a following space, tabs after the leader
        for it in mod.walk():
            if it.doc is not None and it.kind != "dangling" and rng.random() < 0.3:
                raw = []
                for k in range(rng.randint(1, 5)):
                    t = f"text {{L{it.uid}.{k}}} more"
                    if rng.random() < 0.2:
                        t = t.replace(" more", rng.choice(["\x0c", "\x0b", "\x1c", "\x1d", "\x85", "\u2028", "\u2029"]) + "after odd char")
                    raw.append(rng.choice([t, "   " + t, "      deeper " + t, "# " + t, "#" + t, "  # " + t, "#    " + t, "#\t" + t,
                                           "", "#", " #", "\t" + t, "- item " + t, "#[ " + t, "    # " + t + " #"]))
                it.raw_lines = raw
        if rng.random() < 0.3:
            # a documented variable whose quoted value runs over several lines: with a line continuation (backslash at the end
            # of the line) and with a plain line break; under CRLF these are backslash-CR-LF / CR-LF
            it = b.set_(force_doc=True)
            val = rng.choice(['"first part \\\nsecond part \\\nthird"', '"line one\nline two"', '"ends with continuation \\\n"'])
            it.args = [it.args[0], val]
            it.gt["type"], it.gt["default"] = "str", val[1:-1]
            mod.items.insert(rng.randint(0, len(mod.items)), it)
        mod.unasserted = b.unasserted_impl_names
        return mod

    def run_case(self, idx, rng):
        res = CaseResult()
        nr = self.NR[self.tier]
        settings = runner.make_settings()
        if idx >= nr:
            j = idx - nr
            mi, si = j // len(SHAPES), j % len(SHAPES)
            mrng = case_rng("C04-mod", self.seed, self.tier, mi)
            b = Builder(mrng, p_doc=0.6, max_depth=2, max_items=3)
            mod = b.module()
            base = render(mod, Layout(None))
            o0, _ = runner.document_text(base, settings)
            if not o0.ok:
                res.violate(o0.crash_class() or "exit", str(o0.exc)[:200], {"text": base})
                return res
            g = 0
            while True:
                lay = OneGap(g, SHAPES[si])
                t = render(mod, lay)
                if not lay.hit:
                    break
                o, _ = runner.document_text(t, settings)
                res.count("single_gap_insertions")
                if not o.ok:
                    res.violate("comment-breaks-parse:" + (o.crash_class() or "exit"), f"shape {SHAPES[si]!r} at gap {g}",
                                {"text": t, "base": base})
                elif o.value != o0.value:
                    res.violate("comment-changes-output", f"shape {SHAPES[si]!r} at gap {g}",
                                {"text": t, "base": base, "rst": o.value, "base_rst": o0.value})
                g += 1
            res.sig = sig_hash(["gap", mod.shape(), si])
            res.nontrivial = g >= 4
            res.see("shapes", SHAPES[si])
            return res
        mod = self.module(rng)
        base = render(mod, Layout(None))
        exp = expected_entries(mod)
        res.sig = sig_hash(mod.shape())
        o0, _ = runner.document_text(base, settings)
        if not o0.ok:
            res.violate(o0.crash_class() or "exit", str(o0.exc)[:200], {"text": base})
            return res
        page = rstscan.Page(o0.value)
        oracle.compare_sequence(res, exp, oracle.observed_top(page), "base", getattr(mod, "unasserted", ()))
        k = 7 if self.tier == "quick" else 10
        differing = 0
        for v in range(k):
            kind = ["ws", "comments", "case", "docindent", "crlf", "all", "docopen", "all", "crlf", "all"][v]
            if kind == "ws":
                lay = Layout(rng, comments=0.0, wild=0.9, case="lower", doc_indent="")
            elif kind == "comments":
                lay = Layout(rng, comments=0.9, wild=0.2, case="lower", doc_indent="")
            elif kind == "case":
                lay = Layout(rng, comments=0.0, wild=0.0, case=rng.choice(["upper", "mixed"]), doc_indent="")
            elif kind == "docopen":
                lay = Layout(None, doc_indent=rng.choice([None, None, "  ", "\t"]))
            elif kind == "docindent":
                ind = "".join(rng.choice(" \t") for _ in range(rng.randint(1, 10)))
                lay = Layout(None, doc_indent=ind)
                res.see("doc_indents", repr(ind))
            elif kind == "crlf":
                lay = Layout(rng, comments=rng.choice([0, 0.5]), wild=rng.choice([0, 0.5]), case="random", eol="\r\n")
            else:
                lay = Layout(rng, comments=0.6, wild=0.6, case="random")
            t = render(mod, lay)
            if kind == "docopen":
                # only the line that OPENS a doccomment moves: more blanks/tabs in front of it, a bracket comment in front of
                # it, or the doccomment starts on the line of the previous command's ')'. The block itself (and its closing
                # line, on which the block indentation is measured) stays where it was.
                ls = t.split("\n")
                for i_, l_ in enumerate(ls):
                    if l_.lstrip(" \t").startswith("#[[[") and not l_.lstrip(" \t").startswith("#[[[["):
                        how = rng.choice(["blanks", "tab", "comment", "join", "none"])
                        if how == "blanks":
                            ls[i_] = " " * rng.randint(1, 9) + l_
                        elif how == "tab":
                            ls[i_] = "\t" * rng.randint(1, 2) + l_
                        elif how == "comment":
                            ls[i_] = l_[:len(l_) - len(l_.lstrip(" \t"))] + "#[[ moved ]] " + l_.lstrip(" \t")
                        elif how == "join" and i_ > 0 and ls[i_ - 1].rstrip().endswith(")") and "#" not in ls[i_ - 1]:
                            ls[i_ - 1] = ls[i_ - 1].rstrip() + " " + l_.lstrip(" \t")
                            ls[i_] = None
                        res.count("doc_opening_lines_moved", how != "none")
                t = "\n".join(x for x in ls if x is not None)
            if kind in ("ws", "all") and rng.random() < 0.5:
                t = t.rstrip("\r\n")                 # the file does not end with a newline
                res.count("variants_without_final_newline")
            if kind in ("case", "comments") and rng.random() < 0.3:
                t = "\ufeff" + t                     # byte order mark
                res.count("variants_with_byte_order_mark")
            if t != base:
                differing += 1
            res.count("comments_inserted", lay.stats["line_comments"] + lay.stats["bracket_comments"])
            o, _ = runner.document_text(t, settings)
            res.count("layout_pairs_compared")
            res.see("variant_kinds", kind)
            wit = {"variant": kind, "text": t, "base": base}
            if not o.ok:
                res.violate(f"variant-fails:{kind}:" + (o.crash_class() or f"exit{o.exit_code}"),
                            f"{type(o.exc).__name__}: {str(o.exc)[:200]}", wit)
                continue
            a, bb = o0.value, o.value
            if kind == "crlf":
                res.count("crlf_pairs")
                a, bb = norm_crlf(a), norm_crlf(bb)
            if a != bb:
                wit.update(rst=o.value, base_rst=o0.value)
                la, lb = a.split("\n"), bb.split("\n")
                diff = next(((x, y) for x, y in zip(la, lb) if x != y), (None, None))
                sub = "module-line" if (diff[0] or "").startswith(".. module::") or (diff[0] or "").strip("#") == "" or \
                    diff[0] == la[2] else "body"
                res.violate(f"layout-changes-output:{kind}:{sub}", f"first differing line {diff!r}", wit)
        res.nontrivial = len(exp) >= 2 and differing >= 2
        if idx % 80 == 0:
            res.sample = {"base": base[:800], "variant_all": t[:1200]}
        return res

    def check_observed(self, merged, tier):
        o = merged["obs"]
        out = []
        if o.get("layout_pairs_compared", 0) < 500:
            out.append("fewer than 500 layout pairs")
        if o.get("comments_inserted", 0) < 1000:
            out.append("fewer than 1000 comments inserted")
        if tier == "thorough" and o.get("single_gap_insertions", 0) < 1000:
            out.append("single-gap enumeration did not run")
        return out
