"""C02 — exactly one entry per documentable command, in source order."""
from ..core import BaseProp, CaseResult, sig_hash
from .. import runner, rstscan, oracle
from ..modgen import Layout, render, expected_entries
from ..genmod import Builder

DOC_KIND = {"FunctionDocumentation": "function", "MacroDocumentation": "macro", "VariableDocumentation": "data",
            "OptionDocumentation": "option", "ClassDocumentation": "class", "TestDocumentation": "test",
            "SectionDocumentation": "section", "CTestDocumentation": "ctest", "GenericCommandDocumentation": "generic",
            "ModuleDocumentation": "module"}

KINDS14 = ["function", "macro", "option", "set", "add_test", "ct_add_test", "cpp_class", "generic", "plain", "block",
           "cpa", "dangling", "set_doc", "class_doc"]


class Prop(BaseProp):
    ID = "C02"
    PIPELINES = True      # a fixed share of the cases goes through cminx.main (-o and stdout) instead of the Documenter
    ANCHORS = ['cminx.aggregator:DocumentationAggregator.enterDocumented_command', 'cminx.aggregator:DocumentationAggregator.enterCommand_invocation', 'cminx.aggregator:DocumentationAggregator.process_generic_command', 'cminx.documenter:Documenter.process_docs']
    LEVEL = "exploration"
    RULE = ("abstract modules (1-8 top-level items, nesting <=3, every item independently documented, annotation "
            "comments at every gap, random command-name case) rendered to text and run through the real Documenter; "
            "expected entry forest from an independent reference model; in thorough tier also every ordered pair of "
            "item kinds at top level and inside a function body and every ordered triple at top level. Distinct = structural shape of the module "
            "(ids/literals erased); non-trivial = at least 2 expected entries")
    ASSUMPTIONS = ["member/test declarations are immediately followed by their implementing definition",
                   "for implementing definitions that carry a doccomment of their own neither an entry nor its absence is asserted (all other entries of such a module are)", "default settings (config_default.yaml)",
                   "generic-command arguments with parentheses are compared as token sequences (any spacing around parentheses is accepted)",
                   "kind markers are matched loosely (keywords in note/warning text)"]
    HEADLINE = ["entries_expected", "entries_matched", "modules_with_comments", "documented_api_checked"]

    def n_cases(self, tier):
        return 5000 if tier == "quick" else 60000 + 2 * len(KINDS14) ** 2 * 2 + len(KINDS14) ** 3

    def setup_worker(self):
        runner.cminx()
        self.settings = None

    def build(self, idx, rng):
        nrand = 5000 if self.tier == "quick" else 60000
        if idx < nrand:
            b = Builder(rng, p_doc=0.5, max_depth=3, p_clone=0.08, clone_toggle_doc=True, helpers_in_tests=0.2, p_doc_impl=0.12, class_arg_variants=True, p_end_doc=0.08)
            if idx % 60 == 5:
                b.max_params = rng.choice([30, 80])        # scale: very long signatures
            if idx % 200 == 11:
                # scale: several hundred top-level commands in one file (and, in blocks, commands nested tens of levels deep)
                mod = b.module()
                mod.items = b.items(0, n=rng.randint(300, 700))
                return mod, b, "large"
            mod = b.module()
            if idx % 25 == 3:
                # scale: deep nesting, many groups in one command, a very long physical line
                shape = rng.choice(["deep-definitions", "deep-sections", "many-groups", "long-line"])
                extra = {"deep-definitions": lambda: b.deep_definitions(rng.choice([17, 33, 45])),
                         "deep-sections": lambda: b.deep_sections(rng.choice([17, 24, 40])),
                         "many-groups": lambda: b.many_groups(rng.choice([101, 150, 400])),
                         "long-line": lambda: b.long_line_value(rng.choice([8200, 9500, 70000]))}[shape]()
                mod.items.insert(rng.randint(0, len(mod.items)), extra)
                mod.items = b._fix_dangling(mod.items, 0)
                return mod, b, "scale:" + shape
            res_clones = b.clones
            return mod, b, "random"
        # exhaustive ordered pairs of kinds, top-level / in a function body, two doc polarities; then ordered triples
        j = idx - nrand
        n = len(KINDS14)
        triple = None
        if j >= 4 * n * n:
            t = j - 4 * n * n
            triple = (KINDS14[t // (n * n) % n], KINDS14[t // n % n], KINDS14[t % n])
            inbody, flip, k1, k2 = 0, rng.randrange(2), triple[0], triple[1]
        else:
            inbody, j = j % 2, j // 2
            flip, j = j % 2, j // 2
            k1, k2 = KINDS14[j // n % n], KINDS14[j % n]
        b = Builder(rng, p_doc=0.5, max_depth=2)

        def mk(k, doc):
            if k == "set_doc":
                return b.set_(force_doc=True)
            if k == "class_doc":
                return b.klass(1, force_doc=True)
            if k == "dangling":
                return b.dangling()
            b.p_doc = 1.0 if doc else 0.0
            it = b.item(1, "top") if k not in ("generic", "plain") else b.plain(force_doc=(k == "generic"))
            # b.item picks randomly among kinds: force the kind
            tries = 0
            while it.kind != k and not (k == "plain" and it.kind == "plain") and tries < 200:
                b.kinds = [k]
                it = b.item(1, "top")
                tries += 1
            b.kinds = list(Builder(rng).kinds)
            return it
        pair = [mk(k1, bool(flip)), mk(k2, not flip)]
        if triple:
            pair.append(mk(triple[2], rng.random() < 0.5))
        pair = b._fix_dangling(pair, 0 if not inbody else 1)
        if inbody:
            from ..modgen import Item
            uid = b.new_uid()
            f = Item("function", "function", [f"fnN{uid}Z"], uid, doc=None, body=pair, endcmd="endfunction",
                     name=f"fnN{uid}Z", params=[])
            items = [f]
        else:
            items = pair
        from ..modgen import Module
        if triple:
            return Module(items), b, "triple:" + ",".join(triple)
        return Module(items), b, f"pair:{k1},{k2},{'body' if inbody else 'top'}"

    def multiline_case(self, idx, rng):
        """Arguments that span source lines (legal CMake in quoted and bracket arguments): the heading of such an entry is not
        one line, so the page is only asked the quantifier itself -- one entry per documented command, none for the others."""
        res = CaseResult()
        b = Builder(rng, p_doc=0.6, max_depth=2, compound_generic=False)
        b.kinds = ["function", "macro", "generic", "plain", "add_test", "generic", "add_test", "option", "set"]
        mod = b.module()
        ML = ['"first line\n   second line"', '"cd build &&\n ./selftest"', "[[bracket\nargument]]", '"ends with a break\n"', '"a\r\nb"']
        touched = {}
        for it in mod.walk():
            if it.kind in ("generic", "plain", "add_test") and rng.random() < 0.7:
                it.args = list(it.args) + [rng.choice(ML)]
                touched[it.uid] = it
        lay = Layout(rng, comments=rng.choice([0.0, 0.3]), wild=0.0, case="random")
        text = render(mod, lay)
        exp = expected_entries(mod)
        res.sig = sig_hash(mod.shape())
        res.nontrivial = len(touched) >= 1
        res.see("mode", "multi-line-arguments")
        res.count("entries_expected", len(exp))
        o, doc = runner.document_text(text, runner.make_settings())
        wit = {"text": text, "expected": [e.brief() for e in exp]}
        if not o.ok:
            res.violate(o.crash_class() or f"exit:{o.exit_code}", f"{type(o.exc).__name__}: {str(o.exc)[:300]}", wit)
            return res
        wit["rst"] = o.value
        lines = o.value.split("\n")
        want = {e.item.uid: e for e in exp if e.kind in ("generic", "ctest") and e.item.uid in touched}
        for uid, it in touched.items():
            tok = (it.gt.get("name") if it.kind == "add_test" else None) or next(a for a in it.args if isinstance(a, str) and f"N{uid}Z" in a)
            heads = [l for l in lines if l.startswith(".. function:: ") and tok in l]
            res.count("commands_with_multi_line_arguments")
            if uid in want:
                res.count("entries_matched")
                res.see("entry_kinds_seen", want[uid].kind)
                if len(heads) != 1:
                    res.violate(f"multi-line-argument:{want[uid].kind}:{'missing' if not heads else 'repeated'}",
                                f"{len(heads)} headings for documented command {it.cmd}({tok} ...) whose argument spans lines", wit)
            elif heads:
                res.violate("multi-line-argument:entry-for-undocumented-command", f"heading {heads[0]!r}", wit)
        if doc is not None:
            res.count("documented_api_checked")
            if len([d for d in doc.aggregator.documented if type(d).__name__ != "ModuleDocumentation"]) != len(exp):
                res.violate("multi-line-argument:documented-api-count", f"{len(doc.aggregator.documented)} objects, {len(exp)} entries expected", wit)
        return res

    def run_case(self, idx, rng):
        if idx % 12 == 7:
            return self.multiline_case(idx, rng)
        res = CaseResult()
        mod, b, mode = self.build(idx, rng)
        lay = Layout(rng, comments=rng.choice([0.0, 0.3, 0.8]), wild=rng.choice([0.0, 0.3]), case="random", docforms=rng.choice([0.0, 0.0, 0.3]))
        text = render(mod, lay)
        # one case in twelve uses the public API the way the project's examples do: Documenter(file, title, module) with the
        # settings object it makes for itself (its only documented difference to the packaged defaults is the keyword-arguments trigger)
        api_default = idx % 12 == 3
        exp = expected_entries(mod, trigger=":param **kwargs:") if api_default else expected_entries(mod)
        res.sig = sig_hash(mod.shape())
        res.nontrivial = len(exp) >= 2
        res.count("entries_expected", len(exp))
        res.see("mode", mode.split(":")[0])
        if api_default:
            res.count("cases_with_the_default_settings_object")
        for it in mod.walk():
            res.see("item_kinds", it.kind + ("+doc" if it.doc is not None and it.kind != "dangling" else ""))
        if lay.stats["line_comments"] + lay.stats["bracket_comments"]:
            res.count("modules_with_comments")
        res.count("annotation_comments", lay.stats["line_comments"] + lay.stats["bracket_comments"])
        if self.settings is None:
            self.settings = runner.make_settings()
        o, doc = runner.document_text(text, "api-default" if api_default else runner.make_settings())
        wit = {"text": text, "expected": [e.brief() for e in exp]}
        if not o.ok:
            res.violate(o.crash_class() or f"exit:{o.exit_code}", f"{type(o.exc).__name__}: {str(o.exc)[:300]}", wit)
            return res
        wit["rst"] = o.value
        page = rstscan.Page(o.value)
        obs = oracle.observed_top(page)
        nv = len(res.violations)
        matched = oracle.compare_sequence(res, exp, obs, "top", b.unasserted_impl_names)
        res.count("entries_matched", len(matched))
        for e, n in matched.pairs:
            res.see("entry_kinds_seen", e.kind)
            if e.kind == "class":
                m = oracle.compare_class(res, e, n, "class")
                res.count("members_matched", len(m))
            elif e.kind == "generic":
                arg = n.arg
                want_name = e.name
                if not arg.lower().startswith(want_name.lower() + "("):
                    res.violate("generic-name", f"heading {arg!r} does not start with command name {want_name!r}", None)
                else:
                    got = arg[len(want_name) + 1:-1] if arg.endswith(")") else arg[len(want_name) + 1:]
                    has_compound = any(isinstance(a, list) for a in e.item.args)
                    if has_compound:
                        res.count("generic_compound")
                        import re as _re
                        tok = lambda t: _re.findall(r"[()]|[^\s()]+", t)       # noqa: E731
                        if oracle.nows(got) != oracle.nows(e.sig):
                            res.violate("generic-compound-order", f"arguments {got!r}, written {e.sig!r}", None)
                        elif tok(got) != tok(e.sig):
                            # same characters, different token boundaries: arguments were glued together or split
                            res.violate("generic-compound-token-boundaries", f"arguments {got!r}, written {e.sig!r}", None)
                    elif got != e.sig:
                        res.violate("generic-args", f"arguments {got!r}, written {e.sig!r}", None)
        if page.stray_top_lines():
            res.violate("stray-top-level-text", f"{page.stray_top_lines()[:3]}", None)
        if len(page.modules()) != 1:
            res.violate("module-directive-count", f"{len(page.modules())} module directives", None)
        elif page.top and page.top[0].name != "module":
            res.violate("entry-before-module-directive", f"first top-level directive is '{page.top[0].name}:: {page.top[0].arg}'", None)
        # second observation point: DocumentationAggregator.documented
        if doc is not None:
            api = [(DOC_KIND.get(type(d).__name__, type(d).__name__)) for d in doc.aggregator.documented
                   if not (type(d).__name__ in ("FunctionDocumentation", "MacroDocumentation") and d.name in b.unasserted_impl_names)]
            api_wo = [k for k in api if k != "module"]
            want = [e.kind for e in exp]
            res.count("documented_api_checked")
            if api_wo != want:
                res.violate("documented-api-sequence", f"aggregator.documented kinds {api_wo}, expected {want}", None)
        for v in res.violations[nv:]:
            v["witness"] = wit
        if idx % 50 == 0:
            res.sample = {"mode": mode, "text": text, "expected": [e.brief() for e in exp][:10],
                          "observed": [(k, n.arg) for k, _, n in obs][:10]}
        return res

    def check_observed(self, merged, tier):
        out = []
        if merged["obs"].get("entries_matched", 0) < 100:
            out.append("fewer than 100 entries matched")
        need = {"function", "macro", "data", "option", "class", "test", "section", "ctest", "generic"}
        seen = set(merged["sets"].get("entry_kinds_seen", []))
        if need - seen:
            out.append(f"entry kinds never observed: {sorted(need - seen)}")
        return out
