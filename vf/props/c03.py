"""C03 — function and macro signatures mirror the definition (constructive oracle)."""
from ..core import BaseProp, CaseResult, sig_hash
from .. import runner, rstscan, oracle
from ..modgen import Layout, render, expected_entries, own_body_has_cpa
from ..genmod import Builder

# strip-pattern families whose effect is known by construction: (regex, maker(rng, core) -> written)
LOW = "abcdefghij"


def fam_prefix(rng, core):
    return "_" + "".join(rng.choice(LOW) for _ in range(rng.randint(1, 4))) + "_" + core


def fam_suffix(rng, core):
    return core + "_in"


def fam_literal(rng, core):
    # every occurrence of the literal is removed
    parts = [core[:2], core[2:]]
    return rng.choice(["PFX", ""]) + parts[0] + rng.choice(["PFX", "", "PFXPFX"]) + parts[1] + rng.choice(["PFX", ""])


def fam_none(rng, core):
    return core


FAMILIES = {"^_[a-z]+_": fam_prefix, "_in$": fam_suffix, "PFX": fam_literal, "": fam_none,
            "^_[a-zA-Z]*_": fam_prefix, "(_in|_out)$": fam_suffix}
TRIGGERS = [":keyword", ":param **kwargs:", "KWARGS!", "@kw", ":keyword"]


class Prop(BaseProp):
    ID = "C03"
    PIPELINES = True      # a fixed share of the cases goes through cminx.main (-o and stdout) instead of the Documenter
    ANCHORS = ['cminx.aggregator:DocumentationAggregator.process_function', 'cminx.aggregator:DocumentationAggregator.process_macro', 'cminx.aggregator:DocumentationAggregator.process_cmake_parse_arguments', 'cminx.documentation_types:FunctionDocumentation.process', 'cminx.documentation_types:MacroDocumentation.process']
    LEVEL = "exploration"
    RULE = ("modules of function/macro definitions (0-4 parameters built as prefix+core+suffix for a strip-pattern "
            "family whose effect is known by construction; identifier/quoted/${ref}/bracket forms; names in 7 "
            "forms incl. ones the pattern matches) nested to depth 3 with cmake_parse_arguments at every structural "
            "position (own body, blocks, nested/sibling definitions, member/test implementations, file level) and "
            "trigger strings in doccomments; heading must equal name(params [**kwargs]). Distinct = module shape + "
            "settings family; non-trivial = at least one definition with a parameter or a kwargs decision")
    ASSUMPTIONS = ["strip patterns from 6 constructive families", "trigger strings non-empty and not substrings of ids",
                   "documented implementing definitions: only the **kwargs flag of that definition is asserted"]
    HEADLINE = ["signatures_checked", "kwargs_expected_true", "kwargs_expected_false", "cpa_calls", "doc_on_impl_cases"]

    def n_cases(self, tier):
        return 8000 if tier == "quick" else 100000

    def setup_worker(self):
        runner.cminx()

    def run_case(self, idx, rng):
        res = CaseResult()
        fre, mre, mbre = (rng.choice(list(FAMILIES)) for _ in range(3))
        trig = rng.choice(TRIGGERS)
        pat = {"function": fre, "macro": mre, "member": mbre}

        def mkparam(r, uid, j, kind):
            core = f"pN{uid}Z{j}"
            fam = FAMILIES[pat[kind]]
            form = r.choice(["id", "id", "id", "quoted", "ref", "bracket", "nomatch", "whole", "backslash"])
            if form == "backslash":
                # escape sequences inside a parameter: the heading shows them as written
                w = r.choice([core + "\\;x", core + "\\ y", '"say \\"' + core + '\\""', core + "\\(z\\)", "\\$" + core])
                return w, w
            if form == "nomatch":
                return core, core
            if form == "whole" and pat[kind]:
                # the pattern matches the whole parameter: what remains is the empty string
                w = fam(r, "")
                if w and w[0] not in "=[":
                    return w, ""
                return core, core
            if form == "whole":
                form = "id"
            w = fam(r, core)
            if form == "id":
                return w, core
            if pat[kind].startswith("^") or pat[kind].endswith("$"):
                # anchors cannot match inside the delimiters of the other forms
                wrapped = {"quoted": f'"{w}"', "ref": "${" + w + "}", "bracket": f"[[{w}]]"}[form]
                if pat[kind].startswith("^"):
                    return wrapped, wrapped
                return wrapped, wrapped
            wrapped = {"quoted": '"%s"', "ref": "${%s}", "bracket": "[[%s]]"}[form]
            return wrapped % w, wrapped % core
        b = Builder(rng, p_doc=0.5, max_depth=3, mkparam=mkparam, name_forms=True, trigger=trig, p_trigger=0.3,
                    kinds=["function", "macro", "function", "macro", "cpa", "cpa", "block", "ct_add_test", "cpp_class",
                           "plain", "set", "generic", "nested_defs", "nested_defs", "twin_defs"], max_items=7, compound_generic=False, p_clone=0.06, clone_toggle_doc=True)
        if idx % 40 == 9:
            b.max_params = rng.choice([25, 60, 130])        # scale: signatures far wider than any line
            res.count("modules_with_very_long_parameter_lists")
        # names the pattern also matches: prefix the generated name
        mod = b.module()
        if idx % 30 == 4:
            # scale: definitions nested tens of levels deep, the outermost one parsing keyword arguments after them
            mod.items.insert(rng.randint(0, len(mod.items)), b.deep_definitions(rng.choice([17, 33, 48]), documented_outer=rng.random() < 0.7))
            res.count("modules_with_deeply_nested_definitions")
        for it in mod.walk():
            if it.kind in ("function", "macro") and not it.is_impl and rng.random() < 0.25:
                nm = it.gt["name"]
                if nm and nm[0] not in '"$[':
                    fam = FAMILIES[pat[it.kind]]
                    new = fam(rng, nm)
                    it.args[0] = new
                    it.gt["name"] = new
                    if it.endargs:
                        it.endargs = [new]
                    res.count("names_matching_pattern")
        # dedicated class: a documented implementing definition
        doc_on_impl = []
        if rng.random() < 0.25:
            for it in mod.walk():
                if it.impl is not None and rng.random() < 0.5:
                    it.impl.doc = [f"{{L{it.impl.uid}.0}} documented implementation"] + (
                        [f"{{L{it.impl.uid}.1}} {trig} X: y"] if rng.random() < 0.3 else [])
                    doc_on_impl.append(it.impl)
            if doc_on_impl:
                res.count("doc_on_impl_cases")
                if rng.random() < 0.7:
                    mod.items.append(b.cpa())    # a later file-level call
        lay = Layout(rng, comments=rng.choice([0.0, 0.2]), wild=rng.choice([0.0, 0.3, 0.9]), case="random", docforms=rng.choice([0.0, 0.3]))
        text = render(mod, lay)
        settings = runner.make_settings(input={"function_parameter_name_strip_regex": fre,
                                               "macro_parameter_name_strip_regex": mre,
                                               "member_parameter_name_strip_regex": mbre,
                                               "kwargs_doc_trigger_string": trig})
        exp = expected_entries(mod, trigger=trig)
        defs = [e for e in exp if e.kind in ("function", "macro")]
        res.sig = sig_hash([mod.shape(), fre, mre, trig])
        res.nontrivial = any(e.item.gt["params"] or e.kwargs for e in defs)
        ncpa = sum(1 for it in mod.walk() if it.kind == "cpa")
        res.count("cpa_calls", ncpa)
        wit = {"text": text, "settings": {"function_re": fre, "macro_re": mre, "member_re": mbre, "trigger": trig}}
        o, doc = runner.document_text(text, settings)
        if not o.ok:
            res.violate(o.crash_class() or f"exit:{o.exit_code}", f"{type(o.exc).__name__}: {str(o.exc)[:300]}", wit)
            return res
        wit["rst"] = o.value
        page = rstscan.Page(o.value)
        nodes = [n for n in page.entries() if n.name == "function"]
        heads = {}
        for n in nodes:
            heads.setdefault(n.arg.split("(")[0] if not n.arg.startswith(('"', "[", "$")) else None, []).append(n)
        all_heads = [n.arg for n in nodes]
        for e in defs:
            want = f"{e.name}({e.sig})"
            res.count("signatures_checked")
            res.count("kwargs_expected_true" if e.kwargs else "kwargs_expected_false")
            res.see("strip_family_used", fre if e.kind == "function" else mre)
            cands = [h for h in all_heads if h.startswith(e.name + "(")]
            if want in cands:
                continue
            if not cands:
                res.violate(f"signature-missing:{e.kind}", f"no heading starts with {e.name + '('!r}; wanted {want!r}", wit)
                continue
            got = cands[0]
            gk = got.rstrip(")").endswith("**kwargs")
            if got.count("**kwargs") > 1:
                cls = "kwargs-twice"
            elif gk and not e.kwargs:
                cls = "kwargs-unexpected"
                if doc_on_impl:
                    cls = "kwargs-unexpected-with-doc-on-implementation"
            elif e.kwargs and not gk:
                cls = "kwargs-missing"
                if doc_on_impl:
                    cls = "kwargs-missing-with-doc-on-implementation"
            else:
                cls = "params-differ"
            res.violate(f"{cls}:{e.kind}", f"heading {got!r}, expected {want!r}", wit)
        # the same settings through the real configuration layer (settings file -> confuse template -> main): the headings
        # must be the ones the Documenter produced with the Settings object built directly
        if idx % 12 == 0:
            import os
            from .. import fsrun
            with runner.sandbox() as sb:
                cfgp = os.path.join(sb, "cfg", "s.yaml")
                fsrun.write_yaml(cfgp, {"input": {"function_parameter_name_strip_regex": fre, "macro_parameter_name_strip_regex": mre,
                                                  "member_parameter_name_strip_regex": mbre, "kwargs_doc_trigger_string": trig}})
                src = os.path.join(sb, "m.cmake")
                with open(src, "w", encoding="utf-8", newline="") as f:
                    f.write(text)
                home = os.path.join(sb, "home")
                os.makedirs(os.path.join(home, ".config", "cminx"))
                o2 = runner.run_main([src, "-s", cfgp, "-o", os.path.join(sb, "out")], cwd=sb, home=home)
                res.count("runs_through_config_layer")
                pg = os.path.join(sb, "out", "m.rst")
                if not o2.ok or not os.path.exists(pg):
                    res.violate("config-layer-run-failed", f"{o2.crash_class()} {str(o2.exc)[:200]}", wit)
                else:
                    heads2 = [n.arg for n in rstscan.Page(open(pg, encoding="utf-8").read()).entries() if n.name == "function"]
                    if heads2 != all_heads:
                        diff = [(a, b_) for a, b_ in zip(all_heads, heads2) if a != b_][:3]
                        res.violate("signatures-differ-through-config-layer", f"settings file gives {diff} (direct Settings vs. -s file)", wit)
        # documented implementing definitions: only the kwargs flag
        impl_names = [it.impl.gt["name"] for it in mod.walk() if it.impl is not None]
        for im in doc_on_impl:
            if impl_names.count(im.gt["name"]) > 1:
                continue          # the enclosing command was repeated: two definitions share this name
            kw = own_body_has_cpa(im) or any(trig in l for l in im.doc)
            cands = [n for n in nodes if n.arg.startswith(im.gt["name"] + "(") and rstscan.kind_of(n) in ("function", "macro")]
            for n in cands:
                res.count("doc_on_impl_entries_checked")
                gk = n.arg.rstrip(")").endswith("**kwargs")
                if gk != kw:
                    res.violate("kwargs-leak-doc-on-implementation",
                                f"documented implementing definition {n.arg!r}: **kwargs={gk}, own body/doc say {kw}", wit)
        if idx % 100 == 0:
            res.sample = {"text": text[:1500], "settings": wit["settings"],
                          "expected": [f"{e.name}({e.sig})" for e in defs][:8]}
        return res

    def check_observed(self, merged, tier):
        o = merged["obs"]
        out = []
        for k in ("signatures_checked", "kwargs_expected_true", "kwargs_expected_false", "cpa_calls", "doc_on_impl_cases"):
            if o.get(k, 0) < 20:
                out.append(f"{k} < 20")
        return out
