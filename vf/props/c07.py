"""C07 — generated reST is structurally well formed (docutils doctree + id containment)."""
from docutils import nodes

from ..core import BaseProp, CaseResult, sig_hash
from .. import runner, doctree
from ..modgen import Layout, render, expected_entries, LINE_ID, NAME_ID
from ..genmod import Builder
from ..rstgen import BodyGen


def uid_of(arg):
    m = NAME_ID.search(arg or "")
    return int(m.group(1)) if m else None


class Prop(BaseProp):
    ID = "C07"
    PIPELINES = True      # a fixed share of the cases goes through cminx.main (-o and stdout) instead of the Documenter
    ANCHORS = ['cminx.rstwriter:get_indents', 'cminx.rstwriter:Directive.to_text', 'cminx.documentation_types:ClassDocumentation.process', 'cminx.documentation_types:MethodDocumentation.process', 'cminx.documentation_types:OptionDocumentation.process']
    LEVEL = "exploration"
    RULE = ("modules whose doccomment bodies are built from valid reST constructs (paragraphs, field lists, bullet/"
            "enumerated lists, literal blocks, nested directives, definition lists, block quotes, inline markup; each "
            "body first validated stand-alone) on every entry kind, classes nested to depth 3; output parsed by "
            "docutils 0.23 with stub directives; monitor = no system message of level>=3, top level = title + module "
            "+ entries only, every doc-line id and member inside the entry of its own item, every inner-class reference in the "
            "list of the class that declares it. Distinct = module shape "
            "+ construct sequence; non-trivial = >=2 entries and >=1 non-paragraph construct")
    ASSUMPTIONS = ["docutils 0.23 with stub directives stands in for Sphinx", "argument values without line breaks",
                   "level-2 warnings are tolerated (the repository's own goldens contain some)",
                   "bodies that docutils rejects stand-alone are discarded and counted"]
    HEADLINE = ["pages_parsed", "entries_checked", "doc_ids_contained", "bodies_generated", "bodies_discarded"]

    def n_cases(self, tier):
        return 2500 if tier == "quick" else 30000

    def setup_worker(self):
        runner.cminx()
        doctree.register()

    def run_case(self, idx, rng):
        res = CaseResult()
        constructs = []

        def mkdoc(r, uid):
            for _ in range(5):
                lines, names = BodyGen(r, uid).body()
                res.count("bodies_generated")
                if not lines:
                    return lines
                _, msgs = doctree.parse("\n".join(lines) + "\n")
                if any(l >= 3 for l, _, _ in msgs):
                    res.count("bodies_discarded")
                    continue
                constructs.extend(names)
                return lines
            return []
        b = Builder(rng, p_doc=0.75, max_depth=3, mkdoc=mkdoc, max_items=5, allow_dangling=(idx % 3 == 0),
                    kinds=["function", "macro", "option", "set", "add_test", "ct_add_test", "cpp_class", "cpp_class",
                           "generic", "plain", "block"] + (["dangling"] if idx % 3 == 0 else []))
        mod = b.module(module_doc=rng.random() < 0.4, module_name=rng.choice(["", "modN0Z"]))
        text = render(mod, Layout(rng, comments=0.1, wild=0.2, case="random", docforms=rng.choice([0.0, 0.0, 0.3])))
        exp = expected_entries(mod)
        res.sig = sig_hash([mod.shape(), constructs])
        res.nontrivial = len(exp) >= 2 and any(c != "paragraph" for c in constructs)
        for c in constructs:
            res.see("constructs", c)
        o, _ = runner.document_text(text, runner.make_settings(), title="modN0Z", module="modN0Z")
        wit = {"text": text}
        if not o.ok:
            res.violate(o.crash_class() or "exit", f"{type(o.exc).__name__}: {str(o.exc)[:200]}", wit)
            return res
        rst = o.value
        wit["rst"] = rst
        dt, msgs = doctree.parse(rst)
        res.count("pages_parsed")
        res.count("warnings_level2", sum(1 for l, _, _ in msgs if l == 2))
        for lvl, msg, line in msgs:
            if lvl >= 3:
                kind = msg.split(")")[-1].strip().split(".")[0][:50] if ")" in msg else msg[:50]
                import re
                kind = re.sub(r'"[^"]*"', '"..."', kind)
                res.violate(f"docutils-error:{kind}", f"level {lvl}: {msg} (line {line})", wit)
        # top-level shape
        secs = [c for c in dt.children if isinstance(c, nodes.section)]
        if len(secs) != 1 or any(not isinstance(c, (nodes.section, nodes.system_message, nodes.comment)) for c in dt.children):
            res.violate("top-shape:not-one-section", f"document children: {[type(c).__name__ for c in dt.children]}", wit)
            return res
        sec = secs[0]
        kids = [c for c in sec.children if not isinstance(c, nodes.system_message)]
        if not kids or not isinstance(kids[0], nodes.title):
            res.violate("top-shape:no-title", f"{[type(c).__name__ for c in kids[:3]]}", wit)
            return res
        stray = [c for c in kids[1:] if not isinstance(c, doctree.entry)]
        for c in stray:
            res.violate(f"node-outside-entry:{type(c).__name__}", f"top-level {type(c).__name__}: {c.astext()[:80]!r}", wit)
        ents = [c for c in kids[1:] if isinstance(c, doctree.entry)]
        if not ents or ents[0]["dname"] != "module":
            res.violate("top-shape:module-not-first", f"{[e['dname'] for e in ents[:3]]}", wit)
        if sum(1 for e in ents if e["dname"] == "module") != 1:
            res.violate("top-shape:module-count", f"{[e['dname'] for e in ents]}", wit)
        # expected top-level sequence by id
        got = [uid_of(e["arg"]) for e in ents if e["dname"] != "module"]
        want = [e.uid for e in exp]
        if got != want:
            res.violate("top-shape:entry-sequence", f"top-level entry ids {got}, expected {want}", wit)
        # containment of doc-line ids: innermost enclosing entry must be the item's own entry
        owner = {}          # uid -> expected parent chain (list of uids, innermost first)
        for e in exp:
            owner[e.uid] = [e.uid]
            if e.kind == "class":
                for m in e.attrs + e.methods + e.ctors:
                    owner[m.uid] = [m.uid, e.uid]
        owner[0] = [0]
        for tn in dt.findall(nodes.Text):
            for m in LINE_ID.finditer(str(tn)):
                u = int(m.group(1))
                chain = [uid_of(a["arg"]) if a["dname"] != "module" else 0 for a in doctree.entry_ancestors(tn)]
                if chain != owner.get(u):
                    res.violate("doc-text-outside-own-entry", f"line id {m.group(0)} found under entries {chain}, "
                                f"expected {owner.get(u)}", wit)
                else:
                    res.count("doc_ids_contained")
        # members: entry nodes nested exactly in their class; options in the options dict
        allents = list(dt.findall(doctree.entry))
        byuid = {}
        for a in allents:
            u = uid_of(a["arg"])
            if u is not None and a["dname"] != "module":
                byuid.setdefault(u, []).append(a)
        for e in exp:
            res.count("entries_checked")
            res.see("entry_kinds", e.kind)
            if e.kind != "class":
                continue
            for m in e.attrs + e.methods + e.ctors:
                res.count("members_checked")
                ns = byuid.get(m.uid, [])
                if len(ns) != 1:
                    res.violate("member-entry-count", f"{m.kind} {m.name}: {len(ns)} nodes", wit)
                    continue
                chain = [uid_of(a["arg"]) for a in doctree.entry_ancestors(ns[0])]
                if chain != [e.uid]:
                    res.violate("member-outside-own-class", f"{m.kind} {m.name} under {chain}, expected [{e.uid}]", wit)
                if m.kind == "attr":
                    has = "value" in ns[0]["opts"]
                    if has != (m.default is not None):
                        res.violate("attr-value-option", f"{m.name}: :value: present={has}, default={m.default!r}", wit)
        # inner classes are members too: the reference to an inner class is listed in the directive of the class that
        # declares it (nesting depth 3: not in the outermost one) and nowhere else
        import re as _re
        from .. import rstscan, oracle
        cls_nodes = {n.uid(): n for n in rstscan.Page(rst).entries() if rstscan.kind_of(n) == "class"}
        for e in exp:
            if e.kind != "class" or e.uid not in cls_nodes:
                continue
            caps, _ = oracle.class_sections(cls_nodes[e.uid])
            got_inner = []
            for b in caps.get("Inner classes", []):
                if isinstance(b, str):
                    mm = _re.fullmatch(r"\* :class:`(.*)`", b)
                    got_inner.append(mm.group(1) if mm else b)
            res.count("inner_class_lists_checked")
            if e.inner:
                res.count("inner_class_references_expected", len(e.inner))
            if got_inner != list(e.inner):
                res.violate("inner-class-reference-outside-declaring-class",
                            f"class {e.name} lists inner classes {got_inner}, it declares {list(e.inner)}", wit)
        # fields CMinx appends: a method's :param p:/:type p: fields sit directly in that method's entry; a variable's
        # 'type' field sits directly in its own data entry
        fields = []
        for fn in dt.findall(nodes.field_name):
            anc = doctree.entry_ancestors(fn)
            fields.append((fn.astext(), uid_of(anc[0]["arg"]) if anc and anc[0]["dname"] != "module" else None))
        want_owner = {}
        for e in exp:
            if e.kind == "class":
                for m in e.methods + e.ctors:
                    for i in range(min(len(m.types), len(m.params))):
                        for lab in (f"param {m.params[i]}", f"type {m.params[i]}"):
                            want_owner.setdefault(lab, []).append(m.uid)
        for lab, uids in want_owner.items():
            res.count("appended_fields_checked")
            owners = [u for t, u in fields if t == lab]
            # several methods may use the same parameter name (e.g. 'args'): the field must occur once per such method
            if sorted(o for o in owners if o is not None) != sorted(uids) or None in owners:
                res.violate("field-outside-own-entry:method", f"field ':{lab}:' found under entries {owners}, expected {sorted(uids)}", wit)
        for e in exp:
            if e.kind == "class":
                pass
            elif e.kind in ("data", "option"):
                res.count("appended_fields_checked")
                n_own = sum(1 for t, u in fields if t == "type" and u == e.uid)
                if n_own != 1:
                    res.violate("field-outside-own-entry:variable", f"{e.name}: {n_own} ':type:' fields directly in its entry", wit)
        # notes/warnings/field lists emitted by CMinx must sit inside some entry
        for cls in (nodes.note, nodes.warning, nodes.field_list):
            for n in dt.findall(cls):
                if not doctree.entry_ancestors(n):
                    res.violate(f"node-outside-entry:{cls.__name__}", n.astext()[:80], wit)
        if idx % 60 == 0:
            res.sample = {"text": text[:1500], "rst": rst[:1500], "messages": msgs[:5]}
        return res

    def check_observed(self, merged, tier):
        o = merged["obs"]
        out = []
        if o.get("pages_parsed", 0) < 100:
            out.append("fewer than 100 pages parsed")
        if o.get("doc_ids_contained", 0) < 1000:
            out.append("fewer than 1000 contained doc ids")
        if o.get("bodies_discarded", 0) > 0.2 * max(1, o.get("bodies_generated", 0)):
            out.append("more than 20% of generated bodies rejected stand-alone")
        need = {"paragraph", "fields", "bullets", "enum", "literal", "directive", "deflist", "quote"}
        if need - set(merged["sets"].get("constructs", [])):
            out.append("constructs missing")
        return out
