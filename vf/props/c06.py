"""C06 — unreadable input fails loudly, never silently truncated (fault kind x position enumeration)."""
import os
import random

from ..core import BaseProp, CaseResult, sig_hash, case_rng
from .. import runner, cmake_lexer, cmake_trace
from ..modgen import Layout, render
from ..genmod import Builder

FIXED = r'''set(v_un a.b -DX=1 "quoted arg" "esc \" q" [[bracket]] [=[lvl ]] one]=] ${ref} (nested (parens) x))
#[[[
# documented function
#]]
function(fixed_fn a1 "a 2")   # trailing comment
  message("multi
line" \; a\\ b)
endfunction()
'''
SLICE = 12
KINDS = ["ins-quote", "del-quote", "backslash-alnum", "open-bracket-comment-0", "open-bracket-comment-1",
         "extra-lparen", "extra-rparen", "del-paren", "bare-word", "stray-quoted", "stray-bracket"]
PARSE_TIME = {"unterminated-string", "unterminated-bracket", "unterminated-bracket-comment", "paren-imbalance", "stray-text",
              "text-after-command-on-same-line", "identifier-separated-from-paren"}


PLAIN = '''# a module that only sets variables and includes others: nothing here gets an entry
include_guard(GLOBAL)
set(PLAIN_SOURCES a.cpp "b c.cpp" [[d.cpp]] ${MORE})   # trailing comment
list(APPEND PLAIN_SOURCES e.cpp)
find_package(Threads REQUIRED COMPONENTS (x AND y))
include("${CMAKE_CURRENT_LIST_DIR}/other.cmake")
if(WIN32 AND (NOT MSVC))
  message(STATUS "multi
line \\; text")
endif()
'''


def base_module(seed, tier, j):
    if j % 4 == 3:
        return PLAIN
    # base modules are kept short (every byte position is mutated by every fault kind): retry until <= 900 characters
    for attempt in range(20):
        rng = case_rng("C06-mod", seed, tier, j * 100 + attempt)
        b = Builder(rng, p_doc=0.5, max_depth=2, max_items=3, allow_dangling=False, hostile_names=False, p_clone=0.0,
                    kinds=["function", "macro", "option", "set", "ct_add_test", "cpp_class", "generic", "plain", "block"])
        text = render(b.module(), Layout(rng, comments=0.15, wild=0.1, case="lower")) + FIXED
        if len(text) <= 900:
            break
    return text


def mutants_at(text, pos, ref_base):
    """All single-fault mutants anchored at byte offset `pos` (outside comments)."""
    out = []
    ch = text[pos] if pos < len(text) else ""
    out.append(("ins-quote", text[:pos] + '"' + text[pos:]))
    if ch == '"':
        out.append(("del-quote", text[:pos] + text[pos + 1:]))
    if ch.isalnum() and ch.isascii():
        out.append(("backslash-alnum", text[:pos] + "\\" + text[pos:]))
    out.append(("open-bracket-comment-0", text[:pos] + "#[[" + text[pos:]))
    out.append(("open-bracket-comment-1", text[:pos] + "#[=[" + text[pos:]))
    out.append(("extra-lparen", text[:pos] + "(" + text[pos:]))
    out.append(("extra-rparen", text[:pos] + ")" + text[pos:]))
    if ch in "()":
        out.append(("del-paren", text[:pos] + text[pos + 1:]))
    if pos == 0 or text[pos - 1] == "\n":
        # between commands only if this line start is not inside a command/argument
        inside = any(c.start < pos < (c.end or 0) for c in ref_base.commands)
        if not inside:
            out.append(("bare-word", text[:pos] + "bareword\n" + text[pos:]))
            out.append(("stray-quoted", text[:pos] + '"stray string"\n' + text[pos:]))
            out.append(("stray-bracket", text[:pos] + "[[stray]]\n" + text[pos:]))
            if pos > 0:
                # a byte order mark that is not at the start of the file is stray text like any other
                out.append(("stray-bom", text[:pos] + "\ufeff\n" + text[pos:]))
                out.append(("stray-bom-glued", text[:pos] + "\ufeff" + text[pos:]))
    return out


class Prop(BaseProp):
    ID = "C06"
    ANCHORS = ['cminx.parser:ParserErrorListener.syntaxError', 'cminx.parser:LexerErrorListener.syntaxError', 'cminx:document_single_file', 'cminx:document']
    LEVEL = "fault_enumeration"
    RULE = ("base modules (generated + a fixed snippet holding every argument form, escapes, a multi-line string, a "
            "doccomment, comments, a class, a test) mutated by 12 fault kinds at EVERY byte position outside comments "
            "(exhaustive position x kind per base module; thorough adds fault pairs and a backslash at EOF); each "
            "mutant is re-classified by the reference lexer and only INVALID mutants are asserted: cminx.main must "
            "raise / exit non-zero and leave no .rst for that file (single-file -o, as one file of a directory run "
            "with -r -o placed in the top / first / last directory, stdout mode, and as the second revision of a file "
            "whose valid first revision was documented into the same output directory, with an older time stamp); parse-time classes are cross-checked against `cmake -P` on a sample and a "
            "sample goes through the real CLI. Distinct = (fault kind, reference reason, token kind at the position); "
            "non-trivial = INVALID mutant")
    ASSUMPTIONS = ["faults inside comments are outside the property", "mutants the reference lexer calls VALID or LEGACY are "
                   "skipped and counted", "error message text is not asserted",
                   "what happens to the other files of a directory run is not asserted"]
    HEADLINE = ["mutants_generated", "mutants_invalid_asserted", "mutants_valid_skipped", "rejected_as_required",
                "cmake_crosschecks", "cli_runs", "directory_mode_runs", "stdout_mode_runs", "runs_via_cminx_main", "rerun_mode_runs"]

    NMOD = {"quick": 4, "thorough": 16}

    def plan(self, tier):
        plan = []
        for j in range(self.NMOD[tier]):
            text = base_module(self.seed, tier, j)
            ref = cmake_lexer.lex(text)
            pos = [p for p in range(len(text) + 1) if not cmake_lexer.in_comment(ref, p)]
            for k in range(0, len(pos), SLICE):
                plan.append((j, k))
        return plan

    def n_cases(self, tier):
        self.tier = tier
        self._plan = self.plan(tier)
        return len(self._plan) + (0 if tier == "quick" else 300)

    def setup_worker(self):
        runner.cminx()
        self._plan = self.plan(self.tier)
        self._dirmode = 0

    def call(self, argv, sb, home, via_main):
        """cminx.main(argv) -- or, for the bulk, cminx.document() with the Settings main would build from the packaged
        defaults (main itself costs 20 ms of YAML loading per call; a sample of every fault kind still goes through it)."""
        if via_main:
            return runner.run_main(argv, cwd=sb, home=home)
        m = runner.cminx()
        out = argv[argv.index("-o") + 1] if "-o" in argv else None
        st = runner.make_settings(input={"recursive": "-r" in argv}, output={"directory": out})
        old = os.getcwd()
        os.chdir(sb)
        try:
            return runner.guarded(m.document, argv[0], st)
        finally:
            os.chdir(old)
            runner.reset_logging()

    def attempt(self, res, sb, text, kind, reason, wit_extra, idx, mode, via_main=False):
        """Feeds one INVALID mutant to the real code; records a violation if it is accepted."""
        res.count("runs_via_cminx_main" if via_main else "runs_via_cminx_document")
        name = "faulty.cmake"
        out = os.path.join(sb, "out")
        home = os.path.join(sb, "home")
        os.makedirs(os.path.join(home, ".config", "cminx"), exist_ok=True)
        import shutil
        shutil.rmtree(out, ignore_errors=True)
        if mode == "single":
            src = os.path.join(sb, name)
            with open(src, "wb") as f:
                f.write(text if isinstance(text, bytes) else text.encode("utf-8"))
            o = self.call([src, "-o", out], sb, home, via_main)
            page = os.path.join(out, "faulty.rst")
        elif mode == "dir":
            # the faulty file sits in the top directory, in the first or in the last sub-directory walked; clean files in
            # every other directory (a failure must not be forgotten because later directories are fine)
            d = os.path.join(sb, "proj")
            where = ["", "aa", "zz"][self._dirmode % 3]
            self._dirmode += 1
            shutil.rmtree(d, ignore_errors=True)
            for sub in ("", "aa", "zz"):
                os.makedirs(os.path.join(d, sub), exist_ok=True)
                with open(os.path.join(d, sub, "clean_a.cmake"), "w") as f:
                    f.write("function(ok)\nendfunction()\n")
                with open(os.path.join(d, sub, "zclean.cmake"), "w") as f:
                    f.write("function(ok2)\nendfunction()\n")
            src = os.path.join(d, where, name)
            with open(src, "wb") as f:
                f.write(text if isinstance(text, bytes) else text.encode("utf-8"))
            o = self.call([d, "-r", "-o", out], sb, home, via_main)
            page = os.path.join(out, where, "faulty.rst")
            res.see("faulty_file_location_in_directory_runs", where or "top")
            res.count("directory_mode_runs")
        elif mode == "later-input":
            # several inputs in one invocation: a valid file of the SAME NAME (in another directory) was documented first,
            # then the faulty one; a clean third input follows
            d1, d2 = os.path.join(sb, "first"), os.path.join(sb, "second")
            for d_ in (d1, d2):
                shutil.rmtree(d_, ignore_errors=True)
                os.makedirs(d_)
            with open(os.path.join(d1, name), "w") as f:
                f.write("function(valid_twin)\nendfunction()\n")
            with open(os.path.join(d1, "after.cmake"), "w") as f:
                f.write("function(after)\nendfunction()\n")
            src = os.path.join(d2, name)
            with open(src, "wb") as f:
                f.write(text if isinstance(text, bytes) else text.encode("utf-8"))
            o = self.call([os.path.join(d1, name), src, os.path.join(d1, "after.cmake"), "-o", out], sb, home, True)
            res.count("later_input_mode_runs")
            page = None       # the page of the valid twin legitimately exists under the same name
        elif mode == "rerun":
            # history: a valid revision was documented into the same output directory before; the faulty revision is not
            # newer than the page written then (cp -p, restored backup)
            src = os.path.join(sb, name)
            with open(src, "w", encoding="utf-8", newline="") as f:
                f.write("function(valid_revision)\nendfunction()\n")
            o1 = self.call([src, "-o", out], sb, home, via_main)
            page = os.path.join(out, "faulty.rst")
            before = open(page).read() if os.path.exists(page) else None
            with open(src, "wb") as f:
                f.write(text if isinstance(text, bytes) else text.encode("utf-8"))
            os.utime(src, (1_000_000_000, 1_000_000_000))
            o = self.call([src, "-o", out], sb, home, via_main)
            res.count("rerun_mode_runs")
            page = None       # the page of the earlier, valid revision legitimately exists
        else:
            src = os.path.join(sb, name)
            with open(src, "wb") as f:
                f.write(text if isinstance(text, bytes) else text.encode("utf-8"))
            o = self.call([src], sb, home, via_main)
            page = None
            res.count("stdout_mode_runs")
        failed = (o.exc is not None) or (o.exit_code not in (None, 0))
        wit = dict(wit_extra, mode=mode, text=text if isinstance(text, str) else text.decode("latin-1"), outcome=("exception " + type(o.exc).__name__) if o.exc else f"exit {o.exit_code}" if not o.ok else "returned normally")
        bad = False
        if not failed:
            res.violate(f"accepted-invalid-input:{reason}:{kind}:{mode}", "cminx.main returned normally on an invalid file", wit)
            bad = True
        if page and os.path.exists(page):
            res.violate(f"page-written-for-invalid-input:{reason}:{kind}:{mode}", os.path.basename(page), wit)
            bad = True
        if mode == "stdout" and ".. module::" in o.stdout:
            res.violate(f"page-printed-for-invalid-input:{reason}:{kind}", o.stdout[:200], wit)
            bad = True
        if not bad:
            res.count("rejected_as_required")
        return failed

    def run_case(self, idx, rng):
        res = CaseResult()
        sigs = set()
        with runner.sandbox() as sb:
            if idx < len(self._plan):
                j, k = self._plan[idx]
                text = base_module(self.seed, self.tier, j)
                ref = cmake_lexer.lex(text)
                if not ref.valid or ref.legacy:
                    raise RuntimeError(f"base module {j} is not valid by the reference lexer: {ref.invalid}")
                pos = [p for p in range(len(text) + 1) if not cmake_lexer.in_comment(ref, p)][k:k + SLICE]
                muts = [(p, kd, t) for p in pos for kd, t in mutants_at(text, p, ref)]
                if k == 0:
                    muts.append((len(text), "backslash-at-eof", text.rstrip("\n") + "\\"))
                    muts.append((len(text), "backslash-at-eof", text + "set(x a\\"))
            else:
                j = rng.randrange(self.NMOD[self.tier])
                text = base_module(self.seed, self.tier, j)
                ref = cmake_lexer.lex(text)
                muts = []
                for _ in range(6):
                    p1 = rng.choice([p for p in range(len(text)) if not cmake_lexer.in_comment(ref, p)])
                    kd1, t1 = rng.choice(mutants_at(text, p1, ref))
                    r1 = cmake_lexer.lex(t1)
                    p2s = [p for p in range(len(t1)) if not cmake_lexer.in_comment(r1, p)]
                    if not p2s:
                        continue
                    p2 = rng.choice(p2s)
                    kd2, t2 = rng.choice(mutants_at(t1, p2, r1))
                    muts.append((p1, f"pair({kd1}+{kd2})", t2))
            if idx < len(self._plan):
                for p in pos:
                    if (p == 0 or text[p - 1] == "\n") and not any(c.start < p < (c.end or 0) for c in ref.commands):
                        for junk in (b"\xe9\xe8\xe9\n", b"\xe9\xe8 caf\xe9\n", b"\xff\xfe\n"):
                            muts.append((p, "stray-undecodable-bytes", text[:p].encode("utf-8") + junk + text[p:].encode("utf-8")))
            for n, (p, kind, mt) in enumerate(muts):
                res.count("mutants_generated")
                if isinstance(mt, bytes):
                    # a line of bytes that are not UTF-8 between two commands: stray text for CMake, undecodable for CMinx
                    res.count("mutants_invalid_asserted")
                    res.see("fault_kinds", kind)
                    sigs.add((kind, "stray-text"))
                    wx = {"fault": kind, "position": p, "reference_reason": "stray-text(bytes)", "base_module": j}
                    self.attempt(res, sb, mt, kind, "stray-text", wx, idx, ["single", "dir", "stdout", "rerun"][n % 4])
                    continue
                mref = cmake_lexer.lex(mt)
                if mref.valid:
                    res.count("mutants_valid_skipped" if not mref.legacy else "mutants_legacy_skipped")
                    continue
                if mref.legacy and mref.invalid[0] not in ("unterminated-string", "unterminated-bracket",
                                                           "unterminated-bracket-comment"):
                    res.count("mutants_legacy_skipped")
                    continue
                # reasons for which CMake rejects the file but which are none of the fault classes C06 lists: the two layout
                # rules, and an unterminated bracket ARGUMENT (C06 names unterminated strings and bracket COMMENTS; CMinx reads a
                # '[=[' that never closes as ordinary argument text -- a pair of quote faults can produce one: the first quote lands
                # inside the closing ']=]', the second pairs up with it)
                LAYOUT_ONLY = ("text-after-command-on-same-line", "identifier-separated-from-paren", "unterminated-bracket")
                reasons = [x for x, _ in mref.all_invalid if x not in LAYOUT_ONLY]
                reason = reasons[0] if reasons else mref.invalid[0]
                if reason in LAYOUT_ONLY:
                    # invalid for CMake (a newline must follow every command) but not one of the fault classes C06 lists;
                    # typically produced by a pair of parenthesis faults splitting one command into two on one line
                    res.count("mutants_outside_listed_fault_classes_skipped")
                    continue
                # is the fault itself inside a comment of the mutant? (e.g. a quote inserted into a trailing comment)
                res.count("mutants_invalid_asserted")
                kbase = kind.split("(")[0]
                sigs.add((kbase, reason))
                res.see("fault_kinds", kbase)
                res.see("reference_reasons", reason)
                wx = {"fault": kind, "position": p, "reference_reason": reason, "base_module": j}
                vm = (n + idx) % 6 == 0
                self.attempt(res, sb, mt, kbase, reason, wx, idx, "single", via_main=vm)
                if n % 5 == 0:
                    self.attempt(res, sb, mt, kbase, reason, wx, idx, "dir", via_main=vm)
                if n % 5 == 1:
                    self.attempt(res, sb, mt, kbase, reason, wx, idx, "stdout", via_main=vm)
                if n % 5 == 2:
                    self.attempt(res, sb, mt, kbase, reason, wx, idx, "rerun", via_main=vm)
                if n % 5 == 3:
                    self.attempt(res, sb, mt, kbase, reason, wx, idx, "later-input", via_main=True)
                if reason in PARSE_TIME and (n + idx) % 40 == 0:
                    src = os.path.join(sb, "x.cmake")
                    with open(src, "w", encoding="utf-8", newline="") as f:
                        f.write(mt)
                    ok, err = cmake_trace.parse_check(sb, src)
                    res.count("cmake_crosschecks")
                    if ok:
                        res.count("reference_disagreements")
                        res.see("reference_disagreement_samples", f"{kind}@{p}: {reason}: " + mt[max(0, p - 30):p + 30])
                # CLI sample: every 37th mutant, and every 9th of the stray-text kinds (what is detected late, after the parser
                # has recovered, is where a weakened check shows)
                if (n + idx) % 37 == 0 or (kbase in ("bare-word", "stray-quoted", "stray-bracket") and (n + idx) % 9 == 0):
                    src = os.path.join(sb, "cli.cmake")
                    with open(src, "w", encoding="utf-8", newline="") as f:
                        f.write(mt)
                    entry = "main.py" if (n + idx) % 2 else "console"
                    # (every third of these runs with the interpreter's optimisation switched on, as `python -O` does:
                    #  checks written as assert statements are gone then)
                    popt = {"PYTHONOPTIMIZE": "1"} if (n + idx) % 3 == 0 or (n + idx) % 9 == 0 else {}
                    res.see("cli_interpreter_modes", "optimised (-O)" if popt else "default")
                    if (n + idx) % 4 == 1:
                        # standard error (and output) attached to a terminal, as when a person runs the command
                        rc, so, se = runner.run_cli_pty([src, "-o", os.path.join(sb, "cliout")], cwd=sb, home=os.path.join(sb, "home"),
                                                        entry=entry, env_extra=popt, on_tty=("stdout", "stderr"))
                        res.count("cli_runs_on_a_terminal")
                    else:
                        rc, so, se = runner.run_cli([src, "-o", os.path.join(sb, "cliout")], cwd=sb, home=os.path.join(sb, "home"), entry=entry,
                                                    env_extra=popt)
                    res.count("cli_runs")
                    res.see("cli_entry_points", entry)
                    if rc == 0:
                        res.violate(f"cli-exit-zero-on-invalid-input:{reason}:{kbase}", se[-200:], dict(wx, text=mt))
            # optimised interpreter (python -O / PYTHONOPTIMIZE=1): stray text right in front of a doccomment, a comment or the
            # end of the file -- where the parser can recover and only a later check stands between the fault and a page
            strays = []
            for p_, kind_, mt_ in muts:
                if isinstance(mt_, str) and kind_ in ("bare-word", "stray-quoted", "stray-bracket"):
                    after = mt_[p_:].split("\n", 1)[1] if "\n" in mt_[p_:] else ""
                    if after.lstrip(" \t\r\n").startswith("#") or after.strip() == "":
                        mr_ = cmake_lexer.lex(mt_)
                        if not mr_.valid and not mr_.legacy:
                            strays.append((p_, kind_, mt_))
            for p_, kind_, mt_ in strays[:: max(1, len(strays) // 3)][:3]:
                src = os.path.join(sb, "opt.cmake")
                with open(src, "w", encoding="utf-8", newline="") as f:
                    f.write(mt_)
                import shutil as _sh
                _sh.rmtree(os.path.join(sb, "optout"), ignore_errors=True)
                rc, so, se = runner.run_cli([src, "-o", os.path.join(sb, "optout")], cwd=sb, home=os.path.join(sb, "home"),
                                            env_extra={"PYTHONOPTIMIZE": "1"})
                res.count("optimised_interpreter_runs_on_recoverable_faults")
                if rc == 0 or os.path.exists(os.path.join(sb, "optout", "opt.rst")):
                    res.violate(f"optimised-interpreter-accepts-invalid-input:{kind_}", f"exit {rc}; page written: "
                                f"{os.path.exists(os.path.join(sb, 'optout', 'opt.rst'))}",
                                {"fault": kind_, "position": p_, "text": mt_, "env": "PYTHONOPTIMIZE=1"})
        res.sig = sig_hash(sorted(sigs) + [idx])
        res.nontrivial = bool(sigs)
        if idx % 37 == 0 and muts:
            res.sample = {"base_module": j, "example_mutant_kind": muts[0][1], "position": muts[0][0], "mutant": muts[0][2][:600]}
        return res

    def check_observed(self, merged, tier):
        o = merged["obs"]
        out = [f"{k} < 20" for k in self.HEADLINE if o.get(k, 0) < 20]
        if o.get("reference_disagreements", 0) > 0.02 * max(1, o.get("cmake_crosschecks", 0)):
            out.append(f"reference lexer and cmake disagree on {o.get('reference_disagreements')} of {o.get('cmake_crosschecks')} mutants")
        return out

    def extra_coverage(self, merged, tier):
        return {"exhaustive": True, "exhaustive_dimension": "fault kind x byte position outside comments, per base module"}
