"""C14 — index.rst toctrees are closed and complete (closure over the written tree + reference walk)."""
import os

from ..core import BaseProp, CaseResult, sig_hash
from .. import runner, fsrun, gitmatch, fscase
from ..treegen import cmake_text


class Prop(BaseProp):
    ID = "C14"
    ANCHORS = ['cminx:document', 'cminx.rstwriter:Directive.to_text', 'cminx.rstwriter:Directive.option']
    LEVEL = "exploration"
    RULE = ("C13's trees and options plus the quantifier's specials: subdirectories excluded by pattern, auto-"
            "excluded, EMPTY AFTER EXCLUSION (every .cmake file of a subdirectory matches a pattern), nested below "
            "directories without CMake files; sub-directories whose CMake files are symbolic links, symlinked input directory, explicit prefixes incl. the empty one (CLI and settings file); injected listing orders. Closure check over the written tree (every "
            "toctree entry has a generated target, every page / sub-index listed exactly once, one toctree, every page "
            "reachable from the top index by graph search) and comparison with the reference walk. Distinct = tree "
            "shape + pattern forms + options; non-trivial = recursive run over a tree with >=2 processed directories")
    ASSUMPTIONS = ["default module path separator (C14 inherits C13's option space)",
                   "index title check: top == prefix (given or default), others start with prefix and end with the "
                   "directory's base name"]
    HEADLINE = ["runs", "index_files_checked", "toctree_entries_checked", "pages_reached_from_top",
                "subdirs_emptied_by_patterns"]

    def n_cases(self, tier):
        return 2500 if tier == "quick" else 25000

    def setup_worker(self):
        runner.cminx()

    def run_case(self, idx, rng):
        res = CaseResult()
        c = fscase.build_case(rng)
        c.recursive = rng.random() < 0.85
        special = idx % 3 == 0
        # an explicitly given prefix, the empty one included, names the top directory
        prefix = rng.choice([None, None, "Pfx", "", "A b", "p.q", "Proj.", ".lead", "p..", " padded "])
        prefix_src = rng.choice(["cli", "sfile"])
        with runner.sandbox() as sb:
            pats = None
            if special and len(c.tree.dirs) > 1 and not c.tree.dirlinks:
                # empty a subdirectory by patterns: all its .cmake files match
                d = rng.choice(sorted(x for x in c.tree.dirs if x))
                fs = [f for f in c.tree.files_of(d) if f.lower().endswith(".cmake")]
                if not fs:
                    c.tree.files[os.path.join(d, "only.cmake")] = cmake_text("only.cmake")
                    fs = ["only.cmake"]
                pats = sorted(set(fs)) if rng.random() < 0.6 else [os.path.join(sb, "work", "proj", d, f) for f in fs]
                # keep the top-level carve-out
                if c.auto and all(f in fs for f in c.tree.files_of("") if f.endswith(".cmake")):
                    c.tree.files["keeptop.cmake"] = cmake_text("keeptop.cmake")
                res.count("subdirs_emptied_by_patterns")
            if rng.random() < 0.06:
                # a CMake-named entry that is a symbolic link to nothing: the run may fail (loudly) on it, but if it succeeds
                # the toctrees are closed all the same
                d_ = rng.choice(sorted(x for x in c.tree.dirs if x not in c.tree.virtual))
                c.dangling = [os.path.join(d_, "ghost_link.cmake")]
                res.count("trees_with_a_dangling_cmake_symlink")
            order = fsrun.make_order(rng, rng.choice(fsrun.ORDER_MODES[:4]))
            fscase.run_case(c, rng, sb, order, res, patterns=pats, allow_extra_input=False, prefix=prefix, prefix_src=prefix_src)
            res.see("prefix_kinds", "none" if prefix is None else "empty" if prefix == "" else prefix_src)
            wit = fscase.witness(c)
            res.count("runs")
            res.sig = sig_hash([c.tree.shape(), sorted(c.forms), c.recursive, c.auto, special, prefix])
            res.nontrivial = c.recursive and len(c.ref.processed_dirs) >= 2
            o = c.fr.outcome
            if not o.ok:
                if getattr(c, "dangling", None):
                    res.count("runs_failing_loudly_on_a_dangling_symlink")
                    return res
                res.violate(o.crash_class() or f"exit:{o.exit_code}", str(o.exc)[:200], wit)
                return res
            out = c.out_abs
            top_prefix = "proj" if prefix is None else prefix
            reached_pages, reached_idx = set(), set()
            # closure over what was written
            for rel in sorted(c.got):
                if os.path.basename(rel) != "index.rst":
                    continue
                d = os.path.dirname(rel)
                text = open(os.path.join(out, rel), encoding="utf-8").read()
                head, ents, ntoc, opts = fsrun.parse_toctree(text)
                res.count("index_files_checked")
                if ntoc != 1:
                    res.violate("toctree-count", f"{rel}: {ntoc} toctree directives", wit)
                    continue
                # title
                title = head[2] if len(head) > 2 else ""
                if d == "":
                    if title != top_prefix:
                        res.violate("index-title-top", f"{title!r} != {top_prefix!r}", wit)
                else:
                    if not title.startswith(top_prefix) or not title.endswith(os.path.basename(d)):
                        res.violate("index-title-sub", f"{rel}: title {title!r}", wit)
                if len(head) > 3 and not (head[1] == head[3] and len(head[1]) == len(title) and len(set(head[1])) <= 1):
                    res.violate("index-title-frame", f"{rel}: {head}", wit)
                seen = set()
                for e in ents:
                    res.count("toctree_entries_checked")
                    if e in seen:
                        res.violate("toctree-entry-duplicated", f"{rel}: {e}", wit)
                    seen.add(e)
                    if e.endswith("/index.rst"):
                        tgt = os.path.normpath(os.path.join(d, e))
                        if tgt not in c.got:
                            cls = "toctree-dangling-subindex"
                            sub = os.path.normpath(os.path.join(d, e[:-len("/index.rst")]))
                            fs = [f for f in c.tree.files_of(sub) if f.endswith(".cmake")]
                            if fs and all(c.spec.excluded(os.path.join(c.inp, sub, f), False) for f in fs):
                                cls += ":subdir-emptied-by-patterns"
                            res.violate(cls, f"{rel} lists {e} but {tgt} was not generated", wit)
                    else:
                        tgt = os.path.normpath(os.path.join(d, e + ".rst"))
                        if tgt not in c.got:
                            res.violate("toctree-dangling-page", f"{rel} lists {e} but {tgt} was not generated", wit)
                # completeness: pages of this directory and sub-indexes
                for g in c.got:
                    if os.path.dirname(g) == d and os.path.basename(g) != "index.rst":
                        if g[:-4] and os.path.basename(g)[:-4] not in seen:
                            res.violate("page-not-listed", f"{g} not in the toctree of {rel}", wit)
                    if c.recursive and os.path.basename(g) == "index.rst" and os.path.dirname(g) != d \
                            and os.path.dirname(os.path.dirname(g)) == d:
                        if os.path.basename(os.path.dirname(g)) + "/index.rst" not in seen:
                            res.violate("subindex-not-listed", f"{g} not in the toctree of {rel}", wit)
                # versus the reference walk
                if d in c.ref.index:
                    subs, stems = c.ref.index[d]
                    want = [s + "/index.rst" for s in subs] + stems
                    if sorted(ents) != sorted(want):
                        res.violate("toctree-vs-reference-walk", f"{rel}: entries {ents}, expected {want}", wit)
            # reachability from the top index
            if "index.rst" in c.got:
                stack = ["index.rst"]
                while stack:
                    cur = stack.pop()
                    if cur in reached_idx:
                        continue
                    reached_idx.add(cur)
                    d = os.path.dirname(cur)
                    _, ents, _, _ = fsrun.parse_toctree(open(os.path.join(out, cur), encoding="utf-8").read())
                    for e in ents:
                        if e.endswith("/index.rst"):
                            t = os.path.normpath(os.path.join(d, e))
                            if t in c.got:
                                stack.append(t)
                        else:
                            reached_pages.add(os.path.normpath(os.path.join(d, e + ".rst")))
                for g in c.got:
                    if os.path.basename(g) == "index.rst":
                        if g not in reached_idx:
                            res.violate("index-unreachable-from-top", g, wit)
                    elif g not in reached_pages:
                        res.violate("page-unreachable-from-top", g, wit)
                    else:
                        res.count("pages_reached_from_top")
            elif c.got:
                res.violate("no-top-index", f"{sorted(c.got)[:4]}", wit)
            # recorded finding: a module that is itself called index.cmake is written to <dir>/index.rst and replaces the
            # directory's index page there (its toctree is gone, everything listed only by it becomes unreachable). Matched by
            # mechanism: a processed file with the stem 'index' exists in this run; nothing else is re-labelled.
            if any(os.path.basename(pg) == "index.cmake" for pg in c.ref.pages):
                res.count("runs_with_a_module_named_index")
                for v in res.violations:
                    if v["cls"].split(":")[0] in ("toctree-count", "page-unreachable-from-top", "index-unreachable-from-top",
                                                  "index-title-top", "index-title-sub", "index-title-frame", "no-top-index"):
                        v["detail"] = f"[{v['cls']}] " + str(v["detail"])
                        v["cls"] = "module-named-index-overwrites-directory-index"
            # history: the same input is documented once more by this very process, with one more pattern that empties a
            # processed sub-directory (and then once more without it): every run's toctrees are closed on their own
            if idx % 6 == 1 and o.ok and not getattr(c, "dangling", None) and "index.cmake" not in {os.path.basename(f) for f in c.tree.files}:
                subs_ = [d_ for d_ in c.ref.processed_dirs if d_ and d_ not in c.tree.virtual
                         and any(f_.endswith(".cmake") for f_ in c.tree.files_of(d_))]
                if subs_:
                    d_ = rng.choice(subs_)
                    more = sorted({f_ for f_ in c.tree.files_of(d_) if f_.lower().endswith(".cmake")})
                    for round_, extra_ in enumerate((more, [])):
                        out2 = os.path.join(sb, f"again_{round_}")
                        argv2 = [a_ if a_ != c.out_abs else out2 for a_ in c.argv]
                        for p_ in extra_:
                            argv2 += ["-e", p_]
                        o2 = runner.run_main(argv2, cwd=c.cwd, home=c.home)
                        res.count("further_runs_of_the_same_input_in_this_process")
                        if not o2.ok:
                            continue
                        dangling, unlisted = self.closure_of(out2)
                        if dangling:
                            res.violate("toctree-dangling:later-run-in-the-same-process", f"run {round_ + 2} with extra patterns {extra_}: "
                                        f"{dangling[:3]}", dict(wit, argv_later=argv2))
                        if unlisted:
                            res.violate("page-not-listed:later-run-in-the-same-process", f"run {round_ + 2} with extra patterns {extra_}: "
                                        f"{unlisted[:3]}", dict(wit, argv_later=argv2))
            if idx % 50 == 0 and "index.rst" in c.got:
                res.sample = {"argv": c.argv, "patterns": c.patterns, "top_index": open(os.path.join(out, "index.rst")).read(),
                              "written": sorted(c.got)[:15]}
        return res

    @staticmethod
    def closure_of(out):
        """(dangling toctree entries, pages not listed by the index of their directory) of the output tree `out`"""
        got = fsrun.files_under(out) if os.path.isdir(out) else set()
        dangling, unlisted = [], []
        for rel in sorted(got):
            if os.path.basename(rel) != "index.rst":
                continue
            d = os.path.dirname(rel)
            _, ents, _, _ = fsrun.parse_toctree(open(os.path.join(out, rel), encoding="utf-8").read())
            seen = set(ents)
            for e in ents:
                tgt = os.path.normpath(os.path.join(d, e)) if e.endswith("/index.rst") else os.path.normpath(os.path.join(d, e + ".rst"))
                if tgt not in got:
                    dangling.append((rel, e))
            for g in got:
                if os.path.dirname(g) == d and os.path.basename(g) != "index.rst" and os.path.basename(g)[:-4] not in seen:
                    unlisted.append(g)
        return dangling, unlisted

    def check_observed(self, merged, tier):
        o = merged["obs"]
        return [f"{k} < 50" for k in self.HEADLINE if o.get(k, 0) < 50]
