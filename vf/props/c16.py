"""C16 — settings layer as command line > -s file > user config > defaults (capture at the main->document boundary)."""
import copy
import itertools
import os

import yaml

from ..core import BaseProp, CaseResult, sig_hash, repo_root
from .. import runner, fsrun

BOOL_IN = [f"include_undocumented_{k}" for k in ("function", "macro", "cpp_class", "cpp_attr", "cpp_constructor", "cpp_member",
                                                  "ct_add_test", "add_test", "ct_add_section", "option")] + \
    ["auto_exclude_directories_without_cmake", "recursive", "follow_symlinks"]
STR_IN = ["kwargs_doc_trigger_string", "function_parameter_name_strip_regex", "macro_parameter_name_strip_regex",
          "member_parameter_name_strip_regex"]
OPTIONS = [("input", o, "bool") for o in BOOL_IN] + [("input", o, "str") for o in STR_IN] + \
    [("input", "exclude_filters", "union"), ("output", "directory", "dir"), ("output", "relative_to_config", "bool"),
     ("rst", "file_extensions_in_titles", "bool"), ("rst", "file_extensions_in_modules", "bool"),
     ("rst", "module_path_separator", "str"), ("rst", "headers", "list"), ("rst", "prefix", "str")]
CLI_FLAG = {("output", "directory"): "-o", ("input", "recursive"): "-r", ("rst", "prefix"): "-p",
            ("input", "exclude_filters"): "-e"}
SOURCES = ["cli", "sfile", "user"]        # priority order, packaged defaults below all of them

WRONG = {"bool": ["yes please", 7, 0, 1, [True], {"a": 1}, 1.5, "true"],
         "str": [7, [1, 2], {"a": "b"}, True, 1.5],
         "list": [7, {"a": 1}, True],
         # (the exclude patterns are declared as a list, not as a whitespace-separated string sequence: a scalar string is a
         #  wrong type there -- taking it apart character by character least of all)
         "union": [5, {"a": 1}, True, "z*", "build docs/"],
         "dir": [12, [1], {"a": 1}, True]}


def subsets(opt_key):
    srcs = SOURCES if opt_key in CLI_FLAG else SOURCES[1:]
    out = []
    for k in range(len(srcs) + 1):
        out.extend(itertools.combinations(srcs, k))
    return out


ENUM = [(sec, opt, ty, sub) for sec, opt, ty in OPTIONS for sub in subsets((sec, opt))]
ENUM_WRONG = [(sec, opt, ty, src, i) for sec, opt, ty in OPTIONS for src in ("sfile", "user") for i in range(len(WRONG[ty]))]


class Prop(BaseProp):
    ID = "C16"
    ANCHORS = ['cminx:main', 'cminx.config:config_template', 'cminx.config:dict_to_settings']
    LEVEL = "exploration"
    RULE = ("(a) per option, every subset of the sources that can set it (command line, -s file, user file; packaged "
            "defaults always present) with values chosen so that every wrong precedence is visible -- exhaustive; "
            "(b) random multi-option stacks; (c) relative output directories from each source x relative_to_config "
            "from each source x working directory; (d) every option x every wrong-typed value of its type x both file sources (exhaustive). The Settings object is "
            "captured by a wrapper on cminx.document (the observe_at boundary) and compared with a 4-source layering "
            "model whose defaults are read from config_default.yaml. Distinct = (option, subset) resp. stack shape; "
            "non-trivial = at least one non-default source sets a value")
    ASSUMPTIONS = ["a plain string for rst.headers is not treated as 'wrong type' (the option is declared as a confuse string "
                   "sequence, for which whitespace-separated strings are documented); for input.exclude_filters (declared as a list) it is", "the logging section is outside the property",
                   "HOME and XDG_CONFIG_DIRS point into the sandbox so no real user file interferes"]
    HEADLINE = ["settings_captured", "options_compared", "subset_cases", "random_stacks", "relative_dir_cases",
                "wrong_type_cases", "wrong_type_rejected", "multi_input_invocations"]

    NRAND = {"quick": 3000, "thorough": 50000}
    NREL = {"quick": 600, "thorough": 6000}

    def n_cases(self, tier):
        return len(ENUM) + self.NRAND[tier] + self.NREL[tier] + len(ENUM_WRONG)

    def setup_worker(self):
        self.m = runner.cminx()
        with open(os.path.join(repo_root(), "src", "cminx", "config_default.yaml")) as f:
            self.defaults = yaml.safe_load(f)

    def default_of(self, sec, opt):
        d = (self.defaults.get(sec) or {}).get(opt)
        if d is None and opt == "exclude_filters":
            return []
        return d

    def invoke_multi(self, sb, cli, sfile, user, cwd, inputs):
        """Like invoke(), but with real inputs and the real document() called through: the Settings object of every call
        is captured on entry."""
        home = os.path.join(sb, "home")
        os.makedirs(home, exist_ok=True)
        argv = list(inputs)
        uenv = {}
        if user is not None:
            # where the per-user file lives: the default place below HOME, a directory named by CMINXDIR, below
            # XDG_CONFIG_HOME, or below an entry of XDG_CONFIG_DIRS (confuse looks in all of them)
            loc = self.user_loc
            if loc == "cminxdir":
                udir = os.path.join(sb, "by_cminxdir")
                uenv["CMINXDIR"] = udir
            elif loc == "xdg_home":
                uenv["XDG_CONFIG_HOME"] = os.path.join(sb, "xdg_home")
                udir = os.path.join(sb, "xdg_home", "cminx")
            elif loc == "xdg_dirs":
                uenv["XDG_CONFIG_DIRS"] = os.path.join(sb, "nothing_here") + os.pathsep + os.path.join(sb, "xdg_dir2")
                udir = os.path.join(sb, "xdg_dir2", "cminx")
            else:
                udir = os.path.join(home, ".config", "cminx")
            self.user_dir = udir
            fsrun.write_yaml(os.path.join(udir, "config.yaml"), user)
        if sfile is not None:
            p = os.path.join(sb, "cfgdir", "s.yaml")
            fsrun.write_yaml(p, sfile)
            argv += ["-s", p]
        argv += cli
        captured = []
        real = self.m.document

        def wrapper(input_file, settings):
            captured.append((input_file, copy.deepcopy(settings)))
            return real(input_file, settings)
        self.m.document = wrapper
        try:
            o = runner.run_main(argv, cwd=cwd, home=home, env=uenv)
        finally:
            self.m.document = real
        return o, captured, argv

    def invoke(self, sb, cli, sfile, user, cwd):
        """Writes the sources, calls the real main with `document` wrapped. -> (outcome, captured list)"""
        home = os.path.join(sb, "home")
        os.makedirs(home, exist_ok=True)
        argv = ["input.cmake"]
        uenv = {}
        if user is not None:
            # where the per-user file lives: the default place below HOME, a directory named by CMINXDIR, below
            # XDG_CONFIG_HOME, or below an entry of XDG_CONFIG_DIRS (confuse looks in all of them)
            loc = self.user_loc
            if loc == "cminxdir":
                udir = os.path.join(sb, "by_cminxdir")
                uenv["CMINXDIR"] = udir
            elif loc == "xdg_home":
                uenv["XDG_CONFIG_HOME"] = os.path.join(sb, "xdg_home")
                udir = os.path.join(sb, "xdg_home", "cminx")
            elif loc == "xdg_dirs":
                uenv["XDG_CONFIG_DIRS"] = os.path.join(sb, "nothing_here") + os.pathsep + os.path.join(sb, "xdg_dir2")
                udir = os.path.join(sb, "xdg_dir2", "cminx")
            else:
                udir = os.path.join(home, ".config", "cminx")
            self.user_dir = udir
            fsrun.write_yaml(os.path.join(udir, "config.yaml"), user)
        if sfile is not None:
            p = os.path.join(sb, "cfgdir", "s.yaml")
            fsrun.write_yaml(p, sfile)
            argv += ["-s", p]
        argv += cli
        captured = []
        real = self.m.document

        def wrapper(input_file, settings):
            captured.append((input_file, copy.deepcopy(settings)))
        self.m.document = wrapper
        try:
            o = runner.run_main(argv, cwd=cwd, home=home, env=uenv)
        finally:
            self.m.document = real
        return o, captured, argv

    def values_for(self, rng, ty, opt, setters, sb):
        """-> {source: value}, expected effective value."""
        vals = {}
        if not setters:
            return vals, None
        winner = [s for s in SOURCES if s in setters][0]
        if ty == "bool":
            w = True if (winner == "cli") else rng.random() < 0.5
            for s in setters:
                vals[s] = w if s == winner else (not w)
            return vals, w
        if ty == "str":
            for s in setters:
                vals[s] = f"val_{s}_{opt}" if opt != "module_path_separator" else {"cli": "::", "sfile": "/", "user": "-"}[s]
            if opt == "prefix" and rng.random() < 0.5:
                # an explicitly given empty string is a value like any other; so is one that ends in the separator or in blanks
                vals[winner] = rng.choice(["", "", "Ends.", "dots..", "trailing blank ", ".lead"])
            return vals, vals[winner]
        if ty == "list":
            for s in setters:
                vals[s] = {"cli": ["+"], "sfile": ["=", "-"], "user": ["~", "^", "*"]}[s]
            return vals, vals[winner]
        if ty == "union":
            for s in setters:
                vals[s] = [f"pat_{s}_1", f"pat_{s}_2"][:rng.randint(1, 2)]
            return vals, [p for s in SOURCES if s in setters for p in vals[s]]
        if ty == "dir":
            for s in setters:
                vals[s] = os.path.join(sb, "outs", s)
            return vals, vals[winner]
        raise AssertionError(ty)

    def build_sources(self, assignments):
        """assignments: list of (sec, opt, {source: value}) -> cli argv, sfile dict|None, user dict|None"""
        cli, sfile, user = [], None, None
        for sec, opt, vals in assignments:
            for s, v in vals.items():
                if s == "cli":
                    flag = CLI_FLAG[(sec, opt)]
                    if flag == "-r":
                        cli.append("-r")
                    elif flag == "-e":
                        for p in v:
                            cli += ["-e", p]
                    else:
                        cli += [flag, v]
                elif s == "sfile":
                    sfile = sfile or {}
                    sfile.setdefault(sec, {})[opt] = v
                else:
                    user = user or {}
                    user.setdefault(sec, {})[opt] = v
        return cli, sfile, user

    def compare_all(self, res, st, expected, wit, tag):
        """expected: {(sec,opt): value}; every other option must equal its documented default."""
        for sec, opt, ty in OPTIONS:
            got = getattr(getattr(st, sec), opt)
            if (sec, opt) in expected:
                want = expected[(sec, opt)]
            else:
                want = self.default_of(sec, opt)
            res.count("options_compared")
            if ty in ("list", "union"):
                ok = list(got) == list(want) if ty == "list" else sorted(got) == sorted(want)
            else:
                ok = got == want
            if not ok:
                kind = "layering" if (sec, opt) in expected else "unset-option-not-default"
                res.violate(f"{kind}:{ty}:{tag}", f"{sec}.{opt} = {got!r}, expected {want!r}", wit)

    user_loc = "home"
    user_dir = None

    def run_case(self, idx, rng):
        self.user_loc = ["home", "home", "cminxdir", "xdg_home", "xdg_dirs"][idx % 5]
        self.user_dir = None
        r_ = self._run_case(idx, rng)
        if self.user_dir is not None:
            r_.see("user_file_locations", self.user_loc)
        return r_

    def _run_case(self, idx, rng):
        res = CaseResult()
        with runner.sandbox() as sb:
            cwd = os.path.join(sb, "cwd")
            os.makedirs(cwd)
            if idx < len(ENUM):
                sec, opt, ty, setters = ENUM[idx]
                vals, want = self.values_for(rng, ty, opt, setters, sb)
                cli, sfile, user = self.build_sources([(sec, opt, vals)])
                o, cap, argv = self.invoke(sb, cli, sfile, user, cwd)
                wit = {"option": f"{sec}.{opt}", "sources": {k: v for k, v in vals.items()}, "argv": argv}
                res.count("subset_cases")
                res.sig = sig_hash([sec, opt, setters])
                res.nontrivial = bool(setters)
                res.see("subset_sizes", len(setters))
                if not o.ok or len(cap) != 1:
                    res.violate(f"main-failed:{o.crash_class() or o.exit_code}", f"{wit} -> {str(o.exc)[:200]}", wit)
                    return res
                res.count("settings_captured")
                self.compare_all(res, cap[0][1], {(sec, opt): want} if setters else {}, wit, "single-option")
                if idx % 40 == 0:
                    res.sample = {"option": f"{sec}.{opt}", "sources": vals, "argv": argv, "expected": want}
                return res
            j = idx - len(ENUM)
            if j < self.NRAND[self.tier]:
                k = rng.randint(2, 8)
                chosen = rng.sample(OPTIONS, k)
                assigns, expected = [], {}
                for sec, opt, ty in chosen:
                    pool = SOURCES if (sec, opt) in CLI_FLAG else SOURCES[1:]
                    setters = tuple(s for s in pool if rng.random() < 0.5)
                    vals, want = self.values_for(rng, ty, opt, setters, sb)
                    if setters:
                        assigns.append((sec, opt, vals))
                        expected[(sec, opt)] = want
                cli, sfile, user = self.build_sources(assigns)
                o, cap, argv = self.invoke(sb, cli, sfile, user, cwd)
                wit = {"assignments": [(s, o_, v) for s, o_, v in assigns], "argv": argv}
                res.count("random_stacks")
                res.sig = sig_hash(sorted((s, o_, tuple(sorted(v))) for s, o_, v in assigns))
                res.nontrivial = bool(assigns)
                if not o.ok or len(cap) != 1:
                    res.violate(f"main-failed:{o.crash_class() or o.exit_code}", str(o.exc)[:200], wit)
                    return res
                res.count("settings_captured")
                # relative_to_config changes how output.directory is resolved only for relative paths: ours are absolute
                self.compare_all(res, cap[0][1], expected, wit, "stack")
                return res
            j -= self.NRAND[self.tier]
            if j < self.NREL[self.tier] and j % 5 == 4:
                # several inputs in one invocation: the settings handed over for the 2nd, 3rd ... input are the same layered ones
                ins = []
                for nm in ("alpha", "beta"):
                    d = os.path.join(sb, "inputs", nm)
                    os.makedirs(d)
                    with open(os.path.join(d, nm[0] + "_file.cmake"), "w") as f:
                        f.write("function(f)\nendfunction()\n")
                    ins.append(d)
                lone = os.path.join(sb, "inputs", "lone.cmake")
                with open(lone, "w") as f:
                    f.write("function(g)\nendfunction()\n")
                ins.append(lone)
                rng.shuffle(ins)
                psrc = rng.choice([None, None, "cli", "sfile"])
                assigns = [("output", "directory", {"cli": os.path.join(sb, "multi_out")})]
                expected = {("output", "directory"): os.path.join(sb, "multi_out")}
                if psrc:
                    assigns.append(("rst", "prefix", {psrc: "PFX"}))
                    expected[("rst", "prefix")] = "PFX"
                if rng.random() < 0.5:
                    assigns.append(("input", "exclude_filters", {"cli": ["nomatch_*"]}))
                    expected[("input", "exclude_filters")] = ["nomatch_*"]
                cli, sfile, user = self.build_sources(assigns)
                o, cap, argv = self.invoke_multi(sb, cli, sfile, user, cwd, ins)
                wit = {"argv": argv, "inputs": ins}
                res.count("multi_input_invocations")
                res.sig = sig_hash(["multi", [os.path.basename(x) for x in ins], psrc])
                res.nontrivial = True
                if not o.ok or len(cap) != len(ins):
                    res.violate(f"main-failed:{o.crash_class() or o.exit_code}", f"{len(cap)} document() calls; {str(o.exc)[:200]}", wit)
                    return res
                for n_, (inp_, st) in enumerate(cap):
                    res.count("settings_captured")
                    self.compare_all(res, st, expected, dict(wit, call=n_, input=inp_), f"input-{min(n_, 1) and 'later' or 'first'}")
                return res
            if j < self.NREL[self.tier]:
                # relative output directory from one source, relative_to_config from any source (or unset), some cwd
                dsrc = rng.choice(SOURCES)
                rsrc = rng.choice([None, "sfile", "user"])
                rval = rng.random() < 0.7
                rel = rng.choice(["build/docs", "docs", "../up", "./x"])
                cwd2 = rng.choice([cwd, sb, os.path.join(sb, "home")])
                os.makedirs(cwd2, exist_ok=True)
                assigns = [("output", "directory", {dsrc: rel})]
                if rsrc:
                    assigns.append(("output", "relative_to_config", {rsrc: rval}))
                # lower-priority sources may also set a (different, relative) directory: the value in effect is the one of the
                # highest source, and it is resolved against the place of THAT source
                if rng.random() < 0.5:
                    lower = SOURCES[SOURCES.index(dsrc) + 1:]
                    if lower:
                        for ls_ in rng.sample(lower, rng.randint(1, len(lower))):
                            assigns[0][2][ls_] = "from_" + ls_ + "/other"
                        res.count("relative_dir_cases_with_losing_sources")
                cli, sfile, user = self.build_sources(assigns)
                o, cap, argv = self.invoke(sb, cli, sfile, user, cwd2)
                eff_rel = bool(rsrc) and rval
                base = cwd2
                if eff_rel and dsrc == "sfile":
                    base = os.path.join(sb, "cfgdir")
                elif eff_rel and dsrc == "user":
                    base = self.user_dir
                want = os.path.normpath(os.path.join(base, rel))
                wit = {"dir_source": dsrc, "relative_to_config": (rsrc, rval), "cwd": cwd2, "argv": argv, "expected": want}
                res.count("relative_dir_cases")
                res.sig = sig_hash(["rel", dsrc, rsrc, rval, rel, cwd2 == cwd])
                res.nontrivial = True
                if not o.ok or len(cap) != 1:
                    res.violate(f"main-failed:{o.crash_class() or o.exit_code}", str(o.exc)[:200], wit)
                    return res
                res.count("settings_captured")
                got = cap[0][1].output.directory
                if got is None or os.path.normpath(got) != want:
                    res.violate(f"output-directory-base:{dsrc}:rel_to_config={eff_rel}", f"resolved to {got!r}, expected {want!r}", wit)
                if j % 30 == 0:
                    res.sample = wit
                return res
            # wrong types
            sec, opt, ty, src, bi = ENUM_WRONG[j - self.NREL[self.tier]]
            bad = WRONG[ty][bi]
            cli, sfile, user = self.build_sources([(sec, opt, {src: bad})])
            o, cap, argv = self.invoke(sb, cli, sfile, user, cwd)
            wit = {"option": f"{sec}.{opt}", "type": ty, "source": src, "bad_value": repr(bad), "argv": argv}
            res.count("wrong_type_cases")
            res.sig = sig_hash(["wrong", sec, opt, repr(bad), src])
            res.nontrivial = True
            res.see("wrong_value_kinds", f"{ty}<-{type(bad).__name__}")
            if o.ok and cap:
                got = getattr(getattr(cap[0][1], sec), opt)
                res.violate(f"wrong-type-accepted:{ty}<-{type(bad).__name__}", f"{sec}.{opt}: {bad!r} from {src} accepted; "
                            f"value in effect {got!r}", wit)
            else:
                res.count("wrong_type_rejected")
            if ty == "union":
                # the exclude patterns of ALL sources are in effect, so a wrong-typed value must be rejected in whichever source
                # it stands -- also when a source of higher priority gives a proper list
                for hi in SOURCES[:SOURCES.index(src)]:
                    cli, sfile, user = self.build_sources([(sec, opt, {src: bad, hi: ["proper_" + hi]})])
                    o, cap, argv = self.invoke(sb, cli, sfile, user, cwd)
                    res.count("wrong_type_below_a_valid_source_cases")
                    if o.ok and cap:
                        got = getattr(getattr(cap[0][1], sec), opt)
                        res.violate(f"wrong-type-accepted:{ty}<-{type(bad).__name__}:below-a-valid-{hi}-value",
                                    f"{sec}.{opt}: {bad!r} from {src} accepted next to a list from {hi}; value in effect {got!r}",
                                    dict(wit, argv=argv, higher_source=hi))
        return res

    def check_observed(self, merged, tier):
        o = merged["obs"]
        out = [f"{k} < 50" for k in self.HEADLINE if o.get(k, 0) < 50]
        if o.get("wrong_type_cases", 0) != len(ENUM_WRONG):
            out.append("wrong-type enumeration incomplete")
        if o.get("subset_cases", 0) != len(ENUM):
            out.append("subset enumeration incomplete")
        return out

    def extra_coverage(self, merged, tier):
        return {"exhaustive": True, "exhaustive_dimension": f"every option x every subset of the sources able to set it ({len(ENUM)} cases)"}
