"""C15 — exclusion patterns are honoured for every matching path (own matcher + listing-order injection)."""
import itertools
import os

from ..core import BaseProp, CaseResult, sig_hash
from .. import runner, fsrun, gitmatch, fscase


class Prop(BaseProp):
    ID = "C15"
    ANCHORS = ['cminx:document', 'cminx:main']
    LEVEL = "exploration"
    RULE = ("trees x pattern sets (0-6 patterns: bare names, globs, trailing slash, leading **/, **/x/**, absolute "
            "file/dir paths, all CMake files of one directory, whole-input exclusion) supplied through -e, -s file and "
            "user file in mixtures x injected directory-listing orders (identity, reversed, shuffled, all matches "
            "adjacent); flat-directory cases run under EVERY permutation of the listing (exhaustive, <=5 entries). "
            "Observed page/index set, listing requests (descent) and write events vs. an independent matcher. "
            "Distinct = (tree shape, pattern forms, sources, order mode); non-trivial = >=1 pattern matches >=1 path")
    ASSUMPTIONS = ["pattern forms limited to those C15 names (no inner-slash relative patterns, no negation)",
                   "patterns never match a sandbox ancestor except in the deliberate whole-input cases",
                   "quantifier carve-outs of C13 respected"]
    HEADLINE = ["runs", "paths_excluded_by_model", "adjacent_match_runs", "permutation_runs", "whole_input_excluded_runs",
                "listings_observed"]

    NR = {"quick": 450, "thorough": 8000}
    NP = {"quick": 30, "thorough": 400}

    def n_cases(self, tier):
        return self.NR[tier] + self.NP[tier]

    def setup_worker(self):
        runner.cminx()

    def assess(self, res, c, tag=""):
        wit = fscase.witness(c)
        o = c.fr.outcome
        res.count("runs")
        res.count("listings_observed", len(c.fr.scandir_log))
        if getattr(c, "extra_input", None):
            res.count("runs_with_second_input")
            if c.extra_page_expected is False:
                res.count("second_input_excluded_by_pattern")
                res.nontrivial = True
        res.see("input_spelling", "absolute" if os.path.isabs(c.argv[0]) else "relative")
        res.see("working_directory", getattr(c, "cwd_kind", "parent"))
        if not o.ok:
            res.violate(o.crash_class() or f"exit:{o.exit_code}", f"{str(o.exc)[:200]}", wit)
            return
        spec, inp = c.spec, c.inp
        nex = 0
        for f in c.tree.files:
            if spec.excluded(os.path.join(inp, f), False):
                nex += 1
        for d in c.tree.dirs:
            if d and spec.excluded(os.path.join(inp, d), True):
                nex += 1
        res.count("paths_excluded_by_model", nex)
        if nex:
            res.nontrivial = True
        for m in sorted(c.want - c.got):
            res.violate("not-processed-though-no-pattern-matches" + tag, f"{m} missing", wit)
        for e in sorted(c.got - c.want):
            src = os.path.splitext(e)[0]
            # why was it unexpected: pattern-excluded itself, below an excluded dir, or dir without processed files
            res.violate("processed-though-excluded" + tag, f"{e} written", wit)
        # descent: no listing request for an excluded directory or anything below one
        for p, _ in c.fr.scandir_log:
            rel = os.path.relpath(p, inp)
            if rel == ".":
                continue
            parts = rel.split(os.sep)
            for k in range(1, len(parts) + 1):
                anc = os.path.join(inp, *parts[:k])
                if spec.excluded(anc, True):
                    res.violate("excluded-directory-listed" + tag, f"listing requested for {rel} (excluded: {os.path.relpath(anc, inp)})", wit)
                    break
        if spec.excluded(inp, True):
            res.count("whole_input_excluded_runs")
            w = [e for e in c.fr.audit if e[0] != "os.mkdir" or "/.config" not in e[1]]
            if c.got or w:
                res.violate("excluded-input-produced-output", f"files {sorted(c.got)[:3]} events {w[:3]}", wit)

    def run_case(self, idx, rng):
        res = CaseResult()
        nr = self.NR[self.tier]
        if idx < nr:
            c = fscase.build_case(rng, everything=(idx % 15 == 0))
            mode = rng.choice(fsrun.ORDER_MODES)
            with runner.sandbox() as sb:
                # the adjacency key needs the spec, which needs the patterns: two-step via closure
                holder = {}

                def adj(path, name):
                    sp = holder.get("spec")
                    if sp is None:
                        return False
                    full = os.path.join(path, name)
                    return sp.excluded(full, os.path.isdir(full))
                order = fsrun.make_order(rng, mode, adj)
                # generate patterns first (run_case computes spec before running), expose it to the order function
                orig = fsrun.run_monitored

                def hooked(*a, **k):
                    holder["spec"] = c.spec
                    return orig(*a, **k)
                fsrun.run_monitored = hooked
                try:
                    fscase.run_case(c, rng, sb, order, res)
                finally:
                    fsrun.run_monitored = orig
                if mode == "adjacent":
                    res.count("adjacent_match_runs")
                self.assess(res, c)
                res.sig = sig_hash([c.tree.shape(), sorted(c.forms), sorted(k for k, v in c.sources.items() if v), mode])
                for f in c.forms:
                    res.see("pattern_forms", f)
                for k, v in c.sources.items():
                    if v:
                        res.see("pattern_sources", k)
                res.see("order_modes", mode)
                if idx % 60 == 0:
                    res.sample = {"argv": c.argv, "patterns": c.patterns, "sources": c.sources,
                                  "tree_files": sorted(c.tree.files)[:12], "expected": sorted(c.want)[:12]}
                if idx % 6 == 2 and c.fr.outcome.ok and not getattr(c, "linked_input", False) and not c.tree.dirlinks:
                    # the public API used directly, twice in this process with ONE Settings object (the second time a deep copy
                    # of it) whose pattern list was replaced in between: each run honours the patterns it was given
                    import copy
                    from ..treegen import reference_walk, expected_outputs
                    m = runner.cminx()
                    names = sorted({os.path.basename(f) for f in c.tree.files if f.lower().endswith(".cmake")})
                    pats_a = list(c.patterns)
                    pats_b = [rng.choice(names)] if names and rng.random() < 0.7 else []
                    st = runner.make_settings(input={"recursive": c.recursive, "exclude_filters": pats_a,
                                                     "auto_exclude_directories_without_cmake": c.auto},
                                              output={"directory": os.path.join(sb, "api_out_a")})
                    oa = runner.guarded(m.document, c.inp, st)
                    st2 = copy.deepcopy(st) if rng.random() < 0.5 else st
                    st2.input.exclude_filters = pats_b
                    st2.output.directory = os.path.join(sb, "api_out_b")
                    ob = runner.guarded(m.document, c.inp, st2)
                    runner.reset_logging()
                    res.count("api_runs_with_a_reused_settings_object", 2)
                    for o_, pats_, od_ in ((oa, pats_a, "api_out_a"), (ob, pats_b, "api_out_b")):
                        spec_ = gitmatch.Spec(pats_)
                        sp_keep = not (c.auto and not any(f.endswith(".cmake") and not spec_.excluded(os.path.join(c.inp, f), False)
                                                          for f in c.tree.files_of("")))
                        if not o_.ok or not sp_keep:
                            continue          # (outside the carve-out, or the run failed for a reason assessed above)
                        want_ = expected_outputs(reference_walk(c.tree, c.inp, c.recursive, c.auto, spec_))
                        if spec_.excluded(c.inp, True):
                            want_ = set()
                        got_ = fsrun.files_under(os.path.join(sb, od_)) if os.path.isdir(os.path.join(sb, od_)) else set()
                        if got_ != want_:
                            res.violate("api-run-with-reused-settings-ignores-its-patterns",
                                        f"patterns {pats_}: missing {sorted(want_ - got_)[:4]}, unexpected {sorted(got_ - want_)[:4]}",
                                        {"patterns_first_run": pats_a, "patterns_second_run": pats_b, "tree_files": sorted(c.tree.files)[:20]})
            return res
        # exhaustive permutations of a flat directory's listing
        c0 = fscase.build_case(rng, flat=True)
        names = sorted(set(c0.tree.files_of("")) | {os.path.basename(d) for d in c0.tree.subdirs("")})
        stems = [n for n in names]
        k = rng.randint(1, 3)
        pats = rng.choice([["e*.cmake"], ["e*"], ["a*"], ["a*/"], rng.sample(stems, min(k, len(stems))), ["e*.cmake", "aa", "ab"],
                           ["*.cmake"][:0] + ["e1.cmake", "e2.cmake", "e3.cmake"], ["aa", "ab", "ac"]])
        perms = list(itertools.permutations(names))
        if len(perms) > 720:
            perms = rng.sample(perms, 720)
        res.sig = sig_hash(["perm", sorted(names), pats])
        for perm in perms:
            c = fscase.FsCase()
            c.tree, c.recursive, c.auto, c.everything = c0.tree, True, rng.random() < 0.5, False
            top = {"done": False}

            def order(path, ns, perm=perm):
                if sorted(ns) == sorted(perm):
                    return list(perm)
                return list(ns)
            with runner.sandbox() as sb:
                fscase.run_case(c, rng, sb, order, res, patterns=pats)
                res.count("permutation_runs")
                self.assess(res, c, tag="@permutation")
        res.see("order_modes", "all-permutations")
        return res

    def check_observed(self, merged, tier):
        o = merged["obs"]
        out = [f"{k} < 20" for k in self.HEADLINE if o.get(k, 0) < 20]
        need = {"name-file", "name-dir", "glob", "dir-slash", "starstar", "abs-file", "abs-dir", "all-cmake-of-dir", "everything",
                "name-at-several-depths"}
        if need - set(merged["sets"].get("pattern_forms", [])):
            out.append(f"pattern forms never generated: {sorted(need - set(merged['sets'].get('pattern_forms', [])))}")
        return out

    def extra_coverage(self, merged, tier):
        return {"exhaustive": True, "exhaustive_dimension": "all permutations of the listing of each flat directory case (<=6 entries)"}
