"""C08 — include_undocumented_* options only affect commands without a doccomment (metamorphic per entry)."""
import itertools

from ..core import BaseProp, CaseResult, sig_hash, case_rng
from .. import runner, rstscan, oracle
from ..modgen import Layout, render
from ..genmod import Builder

FLAGS = ["function", "macro", "cpp_class", "cpp_attr", "cpp_constructor", "cpp_member", "ct_add_test", "add_test",
         "ct_add_section", "option"]
OBS_KIND = {"function": "function", "macro": "macro", "cpp_class": "class", "cpp_attr": "attr", "cpp_constructor": "method",
            "cpp_member": "method", "ct_add_test": "test", "add_test": "ctest", "ct_add_section": "section",
            "option": "option", "set": "data", "generic": "generic", "block": "generic"}


class Collected(dict):
    """{(kind, heading name): (first node, enclosing class name or None)}; .all[key] = every node with that key"""


def collect(page):
    out = Collected()
    out.all = {}
    for n in page.entries():
        k = rstscan.kind_of(n)
        nm = n.arg.split("(")[0] if k not in ("class", "data", "option") else n.arg
        out.setdefault((k, nm), (n, None))
        out.all.setdefault((k, nm), []).append(n)
        if k == "class":
            for c in n.children:
                if c.name in ("py:method", "py:attribute"):
                    ck = rstscan.kind_of(c)
                    out.setdefault((ck, c.arg.split("(")[0]), (c, n.arg))
                    out.all.setdefault((ck, c.arg.split("(")[0]), []).append(c)
    return out


def blk(n):
    """Block lines without the trailing blank lines (those depend on what happens to follow)."""
    ls = list(n.lines)
    while ls and ls[-1].strip() == "":
        ls.pop()
    return ls


def combos_quick(rng):
    cs = [tuple([True] * 10), tuple([False] * 10)]
    for i in range(10):
        cs.append(tuple(j != i for j in range(10)))
        cs.append(tuple(j == i for j in range(10)))
    while len(cs) < 128:
        cs.append(tuple(rng.random() < 0.5 for _ in range(10)))
    return cs


class Prop(BaseProp):
    ID = "C08"
    PIPELINES = True      # a fixed share of the cases goes through cminx.main (-o and stdout) instead of the Documenter
    ANCHORS = ['cminx.aggregator:DocumentationAggregator.enterCommand_invocation', 'cminx.aggregator:DocumentationAggregator.process_cpp_member', 'cminx.aggregator:DocumentationAggregator.process_cpp_attr']
    LEVEL = "exploration"
    RULE = ("modules mixing documented and undocumented commands of all ten flag-controlled kinds (documented classes "
            "with documented and undocumented members, undocumented classes with documented members, sibling and "
            "nested classes) processed under defaults and under option combinations X; per entry: every doccomment-"
            "carrying command keeps an identical entry, every undocumented K-command has none when K is off. quick: "
            "128 combinations per module (all-on, all-off, each single flag off/on, random); thorough: all 1024 per "
            "module (exhaustive in the configuration dimension). Distinct = (module shape, combination); "
            "non-trivial = module with >=1 documented and >=1 undocumented flag-controlled command and X != default")
    ASSUMPTIONS = ["entries are matched by generated name", "for a documented class: heading, bases, own doc text, "
                   "documented members and documented inner classes are compared (undocumented members may vanish)",
                   "members of a class that is itself hidden need not appear", "what else appears (e.g. implementing "
                   "functions of hidden members as plain functions) is not asserted"]
    HEADLINE = ["combos_run", "documented_entries_compared", "hidden_undocumented_checked", "class_flag_off_combos"]

    MODS = {"quick": 60, "thorough": 150}
    BLOCKS = {"quick": 4, "thorough": 16}

    def n_cases(self, tier):
        return self.MODS[tier] * self.BLOCKS[tier]

    def setup_worker(self):
        runner.cminx()

    def run_case(self, idx, rng):
        res = CaseResult()
        nb = self.BLOCKS[self.tier]
        mi, bi = idx // nb, idx % nb
        mrng = case_rng("C08-mod", self.seed, self.tier, mi)
        b = Builder(mrng, p_doc=0.5, max_depth=3, max_items=7, compound_generic=False, allow_dangling=False,
                    kinds=["function", "macro", "option", "set", "add_test", "ct_add_test", "cpp_class", "cpp_class",
                           "generic", "plain", "block", "cpa", "function", "cpa", "nested_defs", "nested_defs", "twin_defs"], p_reuse_params=0.35, p_clone=0.08,
                    clone_toggle_doc=True, virtual_members=True, p_doc_impl=0.2, p_between=0.3)
        mod = b.module()
        if mi % 30 == 4:
            # scale: a module of more than 64 KiB
            mod.items = mod.items + b.items(0, n=mrng.randint(200, 320))
        if mi % 6 == 2:
            # scale: undocumented definitions nested tens of levels deep inside a documented one that parses keyword arguments
            mod.items.insert(mrng.randint(0, len(mod.items)), b.deep_definitions(mrng.choice([20, 34, 45])))
        text = render(mod, Layout(mrng, comments=0.05, wild=0.1, case="random"))
        # non-flag settings are the same under defaults and under X; half of the modules use parameter strip patterns
        other = {}
        if mrng.random() < 0.5:
            other = {"function_parameter_name_strip_regex": mrng.choice(["^_[a-z]+_", "Z\\d+$", "^p"]),
                     "macro_parameter_name_strip_regex": mrng.choice(["", "^p", "N"]),
                     "member_parameter_name_strip_regex": mrng.choice(["", "^p"])}
        res.see("strip_patterns_in_use", bool(other))
        if self.tier == "thorough":
            allc = list(itertools.product([True, False], repeat=10))
            combos = allc[bi * 64:(bi + 1) * 64]
        else:
            allc = combos_quick(case_rng("C08-combos", self.seed, self.tier, mi))
            combos = allc[bi * 32:(bi + 1) * 32]
        # ground truth about the items
        items = []      # (item, key, class item or None)

        def walk(its, cls):
            for it in its:
                if it.kind in OBS_KIND and not it.is_impl:
                    if it.kind in ("generic", "block"):
                        if it.doc is not None:
                            items.append((it, ("generic", it.cmd), cls))
                    else:
                        nm = it.gt["name"]
                        items.append((it, (OBS_KIND[it.kind], nm), cls))
                if it.impl is not None:
                    if it.impl.doc is not None:
                        # a documented implementing definition is a doccomment-carrying command of its own
                        items.append((it.impl, ("function" if it.impl.cmd == "function" else "macro", it.impl.gt["name"]), None))
                    walk(it.impl.body or [], cls)
                walk(it.body or [], it if it.kind == "cpp_class" else cls)
        walk(mod.items, None)
        # generic keys are by command name, which is not unique: use the first argument id instead
        ndoc = sum(1 for it, _, _ in items if it.doc is not None)
        nund = sum(1 for it, _, _ in items if it.doc is None and it.kind in FLAGS)
        res.sig = sig_hash([mod.shape(), bi])
        res.nontrivial = ndoc >= 1 and nund >= 1
        wit0 = {"text": text}
        o0, _ = runner.document_text(text, runner.make_settings(input=dict(other)))
        if not o0.ok:
            res.violate(o0.crash_class() or "exit", f"default settings: {str(o0.exc)[:200]}", wit0)
            return res
        D = collect(rstscan.Page(o0.value))
        Dgen = {n.uid(): n for n in rstscan.Page(o0.value).entries() if rstscan.kind_of(n) == "generic"}
        reuse_settings = runner.PIPELINE == "documenter" and idx % 4 == 1
        reused = [None]
        for combo in combos:
            X = dict(zip(FLAGS, combo))
            res.count("combos_run")
            if not X["cpp_class"]:
                res.count("class_flag_off_combos")
            if reuse_settings:
                # the public API used directly: ONE Settings object (or deep copies of it) serves all runs, its options are
                # changed in place between two Documenter runs
                import copy
                if reused[0] is None:
                    reused[0] = runner.make_settings(input=dict(other))
                settings = reused[0] if len(reused) % 2 else copy.deepcopy(reused[0])
                reused.append(None)
                for k_, v_ in X.items():
                    setattr(settings.input, f"include_undocumented_{k_}", v_)
                res.count("runs_with_a_reused_settings_object")
            else:
                settings = runner.make_settings(input=dict(other, **{f"include_undocumented_{k}": v for k, v in X.items()}))
            o, _ = runner.document_text(text, settings)
            off = [k for k, v in X.items() if not v]
            wit = {"text": text, "flags_off": off}
            if not o.ok:
                res.violate(o.crash_class() or "exit", f"flags off {off}: {type(o.exc).__name__} {str(o.exc)[:200]}", wit)
                continue
            wit["rst_default"] = o0.value
            wit["rst_X"] = o.value
            pageX = rstscan.Page(o.value)
            Xe = collect(pageX)
            Xgen = {n.uid(): n for n in pageX.entries() if rstscan.kind_of(n) == "generic"}

            def viol(cls_, detail, on_class_doc):
                # mechanism classifier for the recorded finding: only with the class flag off, only on documented classes,
                # only member sections / inner-class list
                if on_class_doc and not X["cpp_class"]:
                    cls_ = "doc-class-under-class-flag-off"
                res.violate(cls_, f"flags off {off}: {detail}", wit)

            def class_hidden(c):
                # a class is shown iff documented or the class flag is on -- and its own enclosing classes do not matter
                return c is not None and c.doc is None and not X["cpp_class"]
            dup_keys = {}
            for it, key, cls in items:
                if it.kind not in ("generic", "block"):
                    dup_keys.setdefault(key, []).append(it)
            dup_keys = {k: v for k, v in dup_keys.items() if len(v) > 1}
            for key, group in dup_keys.items():
                def with_doc(nodes):
                    return sorted(tuple(blk(n)) for n in nodes if any(oracle.LINE_ID.search(l) for l in n.lines))
                if group[0].kind == "cpp_class":
                    res.count("repeated_class_names_not_compared")
                    continue
                if group[0].kind in ("cpp_attr", "cpp_member", "cpp_constructor"):
                    # overloads / the same member name in several classes: the entries that carry doc text are the same blocks
                    # under X as under defaults (wherever a class of the group is hidden as a whole, nothing is said)
                    classes = [c_ for _, k_, c_ in items if k_ == key]
                    if any(class_hidden(c_) or c_ is None for c_ in classes):
                        res.count("overloaded_member_groups_with_hidden_class_skipped")
                        continue
                    res.count("overloaded_member_groups_checked")
                    dd, xx = with_doc(D.all.get(key, [])), with_doc(Xe.all.get(key, []))
                    if dd != xx:
                        viol(f"documented-member-changed:overloaded:{group[0].kind}", f"{key}: {len(dd)} documented blocks under "
                             f"defaults, {len(xx)} under X (or their text/options differ)",
                             any(c_.doc is not None for c_ in classes))
                    continue
                # the same name is defined/declared several times (documented and undocumented variants): the entries that
                # carry doc text must be the same blocks under X as under defaults; with the kind's flag off no entry
                # without doc text may remain
                res.count("repeated_name_groups_checked")
                dd, xx = with_doc(D.all.get(key, [])), with_doc(Xe.all.get(key, []))
                if dd != xx:
                    viol(f"documented-entry-changed-or-missing:repeated-name:{group[0].kind}", f"{key}: {len(dd)} documented blocks "
                         f"under defaults, {len(xx)} under X (or their text differs)", False)
                k0 = group[0].kind
                if k0 in FLAGS and not X[k0]:
                    bare = [n for n in Xe.all.get(key, []) if not any(oracle.LINE_ID.search(l) for l in n.lines)]
                    ndoc_empty = sum(1 for g in group if g.doc is not None and not any(oracle.LINE_ID.search(l) for l in g.doc))
                    if len(bare) > ndoc_empty:
                        viol(f"undocumented-shown-with-flag-off:repeated-name:{k0}", f"{key}: {len(bare)} entries without doc text", False)
            for it, key, cls in items:
                if key in dup_keys:
                    continue
                if it.doc is not None:
                    res.count("documented_entries_compared")
                    if it.kind in ("generic", "block"):
                        d, x = Dgen.get(it.uid), Xgen.get(it.uid)
                        if d is not None and (x is None or blk(x) != blk(d) or x.arg != d.arg):
                            viol("documented-generic-changed", f"{it.cmd} id {it.uid}", False)
                        continue
                    if key not in D:
                        continue          # not C08's business (C02 decides the default rendering)
                    dn, dcls = D[key]
                    if it.kind in ("cpp_attr", "cpp_member", "cpp_constructor"):
                        if class_hidden(cls):
                            res.count("members_of_hidden_class_skipped")
                            continue
                        in_doc_class = cls is not None and cls.doc is not None
                        if key not in Xe:
                            viol(f"documented-member-missing:{it.kind}", f"{key} of class {dcls}", in_doc_class)
                            continue
                        xn, xcls = Xe[key]
                        if xcls != dcls:
                            viol("documented-member-moved", f"{key}: class {dcls} -> {xcls}", in_doc_class)
                        elif blk(xn) != blk(dn) or xn.arg != dn.arg:
                            viol(f"documented-member-changed:{it.kind}", f"{key}", False)
                        continue
                    if key not in Xe:
                        viol(f"documented-entry-missing:{it.kind}", f"{key}", False)
                        continue
                    xn, _ = Xe[key]
                    if it.kind == "cpp_class":
                        own_d = [l for l in dn.text_lines() if oracle.LINE_ID.search(l) or l.strip().startswith("Bases:")]
                        own_x = [l for l in xn.text_lines() if oracle.LINE_ID.search(l) or l.strip().startswith("Bases:")]
                        if own_d != own_x or xn.arg != dn.arg:
                            viol("documented-class-text-changed", f"{key}", False)
                        # documented inner classes stay listed, hidden ones may go
                        inner_doc = [c.gt["name"] for c in (it.body or []) if c.kind == "cpp_class" and c.doc is not None]
                        dl = [l.strip() for l in dn.text_lines() if l.strip().startswith("* :class:")]
                        xl = [l.strip() for l in xn.text_lines() if l.strip().startswith("* :class:")]
                        want = [f"* :class:`{n}`" for n in inner_doc]
                        shown_d = [l for l in dl if l in want]
                        shown_x = [l for l in xl if l in want]
                        foreign = [l for l in xl if l not in dl]
                        if shown_d != shown_x or foreign:
                            viol("inner-class-list-changed", f"{key}: default {dl}, under X {xl}", True)
                    elif blk(xn) != blk(dn) or xn.arg != dn.arg:
                        viol(f"documented-entry-changed:{it.kind}", f"{key}", False)
                elif it.kind in FLAGS and not X[it.kind]:
                    res.count("hidden_undocumented_checked")
                    if key in Xe:
                        # must be the same source item: for function-like kinds the heading name identifies it
                        viol(f"undocumented-shown-with-flag-off:{it.kind}", f"{key}", False)
        if bi == 0 and mi % 4 == 0:
            res.sample = {"text": text[:1200], "combos_in_case": len(combos), "first_combo_flags_off":
                          [k for k, v in zip(FLAGS, combos[0]) if not v]}
        return res

    def check_observed(self, merged, tier):
        o = merged["obs"]
        out = [f"{k} < 200" for k in self.HEADLINE if o.get(k, 0) < 200]
        return out

    def extra_coverage(self, merged, tier):
        if tier == "thorough":
            return {"exhaustive": True, "exhaustive_dimension": "all 2^10 include_undocumented_* combinations per module"}
        return {"exhaustive": False}
