"""C10 — variable and option entries state type, default and help correctly (constructive oracle)."""
from ..core import BaseProp, CaseResult, sig_hash
from .. import runner, rstscan, oracle
from ..modgen import Layout, render, expected_entries, Item
from ..genmod import Builder

VALUES = {
    # (incl. words that are keywords of set()/option() in CMake itself: the entry shows the values as written)
    "identifier": ["abc", "ON", "OFF", "TRUE", "x1", "_u", "A_B", "PARENT_SCOPE", "CACHE", "FORCE", "STRING", "INTERNAL", "NOTFOUND"],
    "unquoted": ["a.b", "-DFOO=1", "a;b", "a\;b", "a\\ b", "$<TARGET_FILE:x>", "@VAR@", "1.2.3", "lib/foo.cmake", "a=b",
                 "--flag", "a\\\"b", "x${y}z", "a\\(b\\)", "'q'", "a\\#b", "*.txt", "c:/p", "~", "a[1]", "<x>", "{}",
                 "$ENV{H}x", "a,b", "%"],
    "quoted": ['""', '"x"', '"a b"', '"\\""', '"a\\"b"', '"semi;colon"', '"${ref}"', '"  lead"', '"trail  "', '"#no comment"',
               '"(paren)"', '"\\\\"', '"a\\nb"', '"[[x]]"', '"\;"', '"$<A:b>"', '"a\\tb"', '" "', '"ü ✓"', '"\'"',
               '"a""', '"Hello, \\\nWorld"', '"two\nlines"'],
    "ref": ["${VAR}", "${${nested}}", "$ENV{HOME}", "${a}${b}", "$CACHE{X}"],
    "bracket": ["[[br]]", "[=[a]]b]=]", "[[]]", "[==[x y]==]", "[[a\"b]]", "[[ (x) ]]", "[=[;]=]", "[[#c]]"],
}
VALUES["quoted"].remove('"a""')   # legacy form, outside C05's guarantee


def unquote(w):
    if len(w) >= 2 and w[0] == '"' and w[-1] == '"':
        return w[1:-1]
    return w


class HBuilder(Builder):
    def value(self):
        form = self.rng.choice(list(VALUES))
        self.forms.append(form)
        return self.rng.choice(VALUES[form])

    def set_(self, force_doc=None):
        r = self.rng
        uid = self.new_uid()
        nm = r.choice([self.name("VAR", uid), f'"VN{uid}Z"', f"V.N{uid}Z-x", "${pre}N%dZ" % uid])
        n = r.choice([0, 1, 1, 1, 2, 2, 3, 6, 15])
        vals = [self.value() for _ in range(n)]
        if n == 1 and r.random() < 0.1:
            vals = ['"' + "a long single string value with many words " * 4 + '"']
        if n == 15:
            vals = [v if r.random() < 0.4 else "long_value_text_%d_xxxxxxxxxxxxxxxx" % i for i, v in enumerate(vals)]
        if n == 0:
            ty, dv = "UNSET", None
        elif n == 1:
            ty, dv = "str", unquote(vals[0])
        else:
            ty, dv = "list", " ".join(vals)
        return Item("set", "set", [nm] + vals, uid, doc=self.doc(uid, force_doc), name=nm, type=ty, default=dv)

    def option(self):
        r = self.rng
        uid = self.new_uid()
        nm = self.name("OPT", uid)
        hlp = r.choice(VALUES["quoted"] + ["HELP", "${h}", "[[help text]]"])
        dflt = r.choice([None, None, "ON", "OFF", '"ON"', "${DEFAULT}", "TRUE", "0", '""', "[[ON]]", "${my_default}", "off",
                         '"on"', "Maybe", "${Mixed_Case}", "$ENV{dflt}", "a;b"])
        args = [nm, hlp] + ([dflt] if dflt is not None else [])
        return Item("option", "option", args, uid, doc=self.doc(uid), name=nm, help=hlp, default=dflt)


def field_of(node, name):
    """values of the GENERATED field `name` of the entry (a field line that carries a doc-line id is the author's own text)"""
    from ..modgen import LINE_ID
    pre = " " * (node.indent + 3) + f":{name}:"
    vals = [l[len(pre):] for l in node.text_lines() if l.startswith(pre) and not LINE_ID.search(l)]
    return vals


class Prop(BaseProp):
    ID = "C10"
    PIPELINES = True      # a fixed share of the cases goes through cminx.main (-o and stdout) instead of the Documenter
    ANCHORS = ['cminx.aggregator:DocumentationAggregator.process_set', 'cminx.aggregator:DocumentationAggregator.process_option', 'cminx.documentation_types:VariableDocumentation.process', 'cminx.documentation_types:OptionDocumentation.process']
    LEVEL = "exploration"
    RULE = ("set() with 0-6 values and option() with/without default, every value drawn from 5 argument forms x "
            "special characters (60 literal values incl. empty string, escaped quotes, bracket levels, generator "
            "expressions), documented or not, placed anywhere in generated modules; fields read byte-exactly from "
            "`:Default value:`, `:type:`, `:Help text:` lines. Distinct = (command, value-form tuple, documented); "
            "non-trivial = entry with at least one value/field asserted")
    ASSUMPTIONS = ["values contain no line breaks", "UNSET: only the type is asserted, not the 'Default value' text",
                   "option help/default accepted as written or with one pair of surrounding quotes removed"]
    HEADLINE = ["set_entries_checked", "option_entries_checked", "undocumented_sets_absent"]

    def n_cases(self, tier):
        return 8000 if tier == "quick" else 120000

    def setup_worker(self):
        runner.cminx()

    def run_case(self, idx, rng):
        res = CaseResult()
        b = HBuilder(rng, p_doc=0.7, max_depth=2, max_items=6, compound_generic=False,
                     kinds=["set", "set", "set", "option", "option", "function", "block", "cpp_class", "plain", "macro"], p_clone=0.1)
        b.forms = []
        mod = b.module()
        # doccomments that themselves talk about types and defaults: as a field of the author's own (':type: path') or in
        # prose; the generated fields of the entry are there all the same
        for it in mod.walk():
            if it.kind in ("set", "option") and it.doc is not None and rng.random() < 0.2:
                k_ = len(it.doc)
                it.doc = list(it.doc) + [rng.choice([f":type: path {{L{it.uid}.{k_}}}", f"{{L{it.uid}.{k_}}} see :type: below",
                                                     f":Default value: none {{L{it.uid}.{k_}}}", f"{{L{it.uid}.{k_}}} the :Help text: field"])]
                res.count("doccomments_mentioning_generated_field_names")
        text = render(mod, Layout(rng, comments=0.1, wild=0.2, case="random"))
        exp = expected_entries(mod)
        tgt = [e for e in exp if e.kind in ("data", "option")]
        res.sig = sig_hash([[(e.kind, len(e.item.args), e.item.doc is not None) for e in tgt], b.forms])
        res.nontrivial = bool(tgt)
        for f in b.forms:
            res.see("value_forms", f)
        o, _ = runner.document_text(text, runner.make_settings())
        wit = {"text": text}
        if not o.ok:
            res.violate(o.crash_class() or "exit", f"{type(o.exc).__name__}: {str(o.exc)[:200]}", wit)
            return res
        wit["rst"] = o.value
        page = rstscan.Page(o.value)
        nodes = {}
        for n in page.entries():
            if n.name == "data":
                nodes.setdefault(n.arg, []).append(n)
        # undocumented set() never gets an entry
        for it in mod.walk():
            if it.kind == "set" and it.doc is None:
                if it.gt["name"] in nodes:
                    res.violate("undocumented-set-has-entry", it.gt["name"], wit)
                else:
                    res.count("undocumented_sets_absent")
        want_count = {}
        for e in tgt:
            want_count[e.name] = want_count.get(e.name, 0) + 1
        seen_idx = {}
        for e in tgt:
            ns = nodes.get(e.name, [])
            if len(ns) != want_count[e.name]:
                res.violate(f"entry-count:{e.kind}", f"{e.name}: {len(ns)} data entries, the command occurs {want_count[e.name]}x", wit)
                continue
            i_ = seen_idx.get(e.name, 0)
            seen_idx[e.name] = i_ + 1
            n = ns[i_]
            kind = rstscan.kind_of(n)
            if kind != e.kind:
                res.violate(f"kind:{e.kind}->{kind}", e.name, wit)
            ty = field_of(n, "type")
            dv = field_of(n, "Default value")
            multi = any(isinstance(a_, str) and "\n" in a_ for a_ in e.item.args)
            if multi:
                # an argument that runs over several source lines: the line breaks end up in the page, and what follows the
                # first of them is no longer part of the entry's block. Asserted is only what the statement says about the text
                # itself: the field that shows the value starts with the value's first line, as written.
                res.count("entries_with_multi_line_arguments")
                if e.kind == "data" and e.fields["type"] != "UNSET":
                    first = (" " + e.fields["Default value"]).split("\n")[0]
                    got1 = dv[0].split("\n")[0] if dv else None
                    if got1 != first:
                        if True:
                            res.violate(f"set-default:{e.fields['type']}:multi-line", f"{e.item.args}: default field starts {dv[:1]!r}, "
                                        f"expected first line {first!r}", wit)
                elif e.kind == "option":
                    hp = field_of(n, "Help text")
                    w_h = e.item.gt["help"]
                    if "\n" in w_h and (not hp or hp[0] not in (" " + w_h.split("\n")[0], " " + unquote(w_h).split("\n")[0])):
                        res.violate("option-help:multi-line", f"help field starts {hp[:1]!r}, written {w_h!r}", wit)
                continue
            if e.kind == "data":
                res.count("set_entries_checked")
                res.see("set_types", e.fields["type"])
                if ty != [" " + e.fields["type"]]:
                    res.violate(f"set-type:{e.fields['type']}", f"{e.item.args}: type field {ty}", wit)
                if e.fields["type"] != "UNSET":
                    want_dv = " " + e.fields["Default value"]
                    if dv != [want_dv]:
                        res.violate(f"set-default:{e.fields['type']}", f"{e.item.args}: default field {dv!r}, expected "
                                    f"{e.fields['Default value']!r}", wit)
            else:
                res.count("option_entries_checked")
                hp = field_of(n, "Help text")
                w_h, w_d = e.item.gt["help"], e.item.gt.get("default")
                if ty != [" bool"]:
                    res.violate("option-type", f"{ty}", wit)
                ok_h = [" " + w_h], [" " + unquote(w_h)]
                if hp not in ok_h:
                    res.violate("option-help", f"help field {hp!r}, written {w_h!r}", wit)
                if w_d is None:
                    if dv != [" OFF"]:
                        res.violate("option-default-omitted", f"default field {dv!r}, expected OFF", wit)
                elif dv not in ([" " + w_d], [" " + unquote(w_d)]):
                    res.violate("option-default", f"default field {dv!r}, written {w_d!r}", wit)
        if idx % 100 == 0:
            res.sample = {"text": text[:1000], "expected": [(e.kind, e.name, e.fields) for e in tgt][:6]}
        return res

    def check_observed(self, merged, tier):
        o = merged["obs"]
        out = []
        for k in self.HEADLINE:
            if o.get(k, 0) < 100:
                out.append(f"{k} < 100")
        if set(merged["sets"].get("set_types", [])) != {"str", "list", "UNSET"}:
            out.append("not all set types seen")
        return out
