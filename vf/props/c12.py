"""C12 — title and module name derive from prefix and relative path, or @module (constructive oracle)."""
import os

from ..core import BaseProp, CaseResult, sig_hash
from .. import runner, fsrun, rstscan, gitmatch
from ..modgen import LINE_ID, Layout, render, Module
from ..genmod import Builder
from ..treegen import gen_tree, reference_walk, stem_of

SEPS = [".", ".", "::", "/", "-", " - ", "__", ":"]
HEADERS = ["#*=-_~!&@^", "=", "*#", "-~", "^", "+", "=-`:'\"~^_*", "#"]


def strip_ext(s):
    return s[:-6] if s.endswith(".cmake") else s


class Prop(BaseProp):
    ID = "C12"
    ANCHORS = ['cminx:document_single_file', 'cminx.documenter:Documenter.process_docs', 'cminx.aggregator:DocumentationAggregator.enterDocumented_module', 'cminx.rstwriter:Heading.build_heading_string']
    LEVEL = "exploration"
    RULE = ("directory inputs (trees of depth 0-4) and single-file inputs (relative/absolute path, several working "
            "directories) x prefix (absent, -p, config file) x 8 separators x both extension options x 8 header "
            "character lists x module doccomments (with/without name, with/without body, indented 0-9, followed by a "
            "documented or undocumented command, preceded by comments); first four lines and the module directive of "
            "every page vs. the constructive expectation; titles of one run pairwise different. Distinct = (input "
            "kind, depth, settings, @module shape); non-trivial = page whose expectation involves a prefix, a "
            "sub-directory or an @module doccomment")
    ASSUMPTIONS = ["lower-case .cmake extensions only (mixed case belongs to C13's carve-out)",
                   "path separators inside the relative path are not asserted to be replaced by the module separator",
                   "index pages are C14's business"]
    HEADLINE = ["pages_checked", "single_file_pages", "module_doc_pages", "titles_compared_for_injectivity"]

    def n_cases(self, tier):
        return 2500 if tier == "quick" else 25000

    def setup_worker(self):
        runner.cminx()

    def module_text(self, rng, rel, res):
        """A small module; optionally starts with an @module doccomment. -> (text, mdoc spec or None)"""
        b = Builder(rng, p_doc=0.6, max_depth=1, max_items=3, allow_dangling=False)
        kind = rng.choice(["none", "none", "named", "named", "unnamed"])
        mod = b.module()
        if kind == "none":
            return render(mod, Layout(rng, comments=0.1, wild=0.1)), None
        name = "" if kind == "unnamed" else rng.choice(["modN0Z", "my.mod-N0Z", "ns::N0Z", "My Module N0Z", "m", "module", "x@module", "modül N0Z", "日本語N0Z", "a.cmake.b"])
        nbody = rng.choice([0, 0, 1, 3])
        mod.module_doc = [f"{{L0.{k}}} module text" if rng.random() < 0.8 else "" for k in range(nbody)]
        mod.module_name = name
        # first following command documented or not
        lay = Layout(rng, comments=0.1, wild=0.1)
        lay.doc_indent = None
        text = render(mod, lay)
        ind = rng.choice(["", "", " ", "  ", "\t", "      ", "\t\t", "         "])
        end = text.index("#]]\n") + 4
        blk = "".join(ind + l + "\n" for l in text[:end].split("\n")[:-1])
        pre = rng.choice(["", "", "# leading comment\n", "\n\n", "#[[ bracket ]]\n", "  \n#[=[ x ]=]\n"])
        if nbody == 0 and rng.random() < 0.3:
            # the whole module doccomment on one line: '#[[[ @module name #]]'
            blk = ind + "#[[[ @module" + (" " + name if name else "") + " #]]\n"
            res.see("module_doc_shapes", "one-line")
        gap = rng.choice([" ", " ", "  ", "\t", "    ", " \t ", ""])
        blk = blk.replace("#[[[ @module", "#[[[" + gap + "@module", 1)
        res.see("module_tag_gap", repr(gap))
        text = pre + blk + text[end:]
        res.see("module_doc_shapes", f"{kind}:body{min(nbody, 1)}:ind{len(ind)}:pre{int(bool(pre))}")
        return text, {"name": name, "doc": mod.module_doc, "first_item_doc": mod.items[0].doc if mod.items else None}

    def check_page(self, res, rst, exp_title, exp_module, headers, mdoc, wit, tag):
        lines = rst.split("\n")
        res.count("pages_checked")
        c = headers[0]
        if mdoc and mdoc["name"]:
            exp_title = exp_module = mdoc["name"]
        if len(lines) < 6 or lines[0] != "" or lines[2] != exp_title:
            cls = "title-text"
            if lines[2:3] and os.path.isabs(lines[2]):
                cls = "title-is-absolute-path"
            res.violate(f"{cls}:{tag}", f"title {lines[2:3]}, expected {exp_title!r}", wit)
        elif lines[1] != c * len(exp_title) or lines[3] != lines[1]:
            res.violate(f"title-frame:{tag}", f"over {lines[1]!r} under {lines[3]!r}; expected {c!r}*{len(exp_title)}", wit)
        page = rstscan.Page(rst, rstscan.ENTRY_ONLY)
        mods = page.modules()
        if len(mods) != 1:
            res.violate(f"module-directive-count:{tag}", f"{len(mods)}", wit)
            return lines[2] if len(lines) > 2 else None
        if page.top and page.top[0].name != "module":
            res.violate(f"module-not-before-entries:{tag}", page.top[0].name, wit)
        if mods[0].arg != exp_module:
            cls = "module-name"
            if os.path.isabs(mods[0].arg):
                cls = "module-is-absolute-path"
            res.violate(f"{cls}:{tag}", f"module {mods[0].arg!r}, expected {exp_module!r}", wit)
        if any("@module" in l for _, l in mods[0].content):
            res.violate(f"module-tag-line-in-module-content:{tag}", f"{[l for _, l in mods[0].content if '@module' in l][:2]}", wit)
        if mdoc:
            res.count("module_doc_pages")
            want = [t for t in mdoc["doc"] if t]
            got = [l for _, l in mods[0].content if LINE_ID.search(l)]
            if got != ["   " + t for t in want]:
                res.violate(f"module-doc-text:{tag}", f"module content {got}, expected {want}", wit)
            for n in page.entries():
                for l in n.lines:
                    m = LINE_ID.search(l)
                    if m and m.group(1) == "0":
                        res.violate(f"module-doc-attached-to-command:{tag}", f"{l!r} under {n.arg!r}", wit)
        return lines[2]

    def run_case(self, idx, rng):
        res = CaseResult()
        sep = rng.choice(SEPS)
        ext_t, ext_m = rng.random() < 0.4, rng.random() < 0.4
        headers = list(rng.choice(HEADERS))
        prefix_src = rng.choice(["none", "none", "cli", "config"])
        prefix = None if prefix_src == "none" else rng.choice(["Pfx", "my.pkg", "A B", "p-1", "Prä✓", "日本", "", "Ends" + sep, sep + "starts",
                                                               "Twice" + sep + sep, "v2*", "a|b", "back\\slash", "site.cmake.lib"])
        single = idx % 3 == 0
        res.sig = sig_hash([single, sep, ext_t, ext_m, len(headers), prefix_src, prefix])
        res.see("separators", sep)
        res.see("prefix_sources", prefix_src)
        with runner.sandbox() as sb:
            home = os.path.join(sb, "home")
            os.makedirs(home)
            cfg = os.path.join(sb, "cfg", "s.yaml")
            rstcfg = {"module_path_separator": sep, "file_extensions_in_titles": ext_t, "file_extensions_in_modules": ext_m,
                      "headers": headers}
            if prefix_src == "config":
                rstcfg["prefix"] = prefix
            fsrun.write_yaml(cfg, {"rst": rstcfg})
            out = os.path.join(sb, "out")
            base_argv = ["-s", cfg, "-o", out] + ((["-p", prefix] if not prefix.startswith("-") else ["--prefix=" + prefix]) if prefix_src == "cli" else [])
            if single:
                d = os.path.join(sb, "w", rng.choice(["", "deep/er"]))
                os.makedirs(d, exist_ok=True)
                # (a lone input file need not be called *.cmake: CMakeLists.txt, a module without extension; names that contain reST
                #  inline markup characters)
                fname = rng.choice(["single.cmake", "a.b.cmake", "find-foo.cmake", "x.cmake.y.cmake", "ünï.cmake", "CMakeLists.txt", "BuildHelpers",
                                    "Find.Foo", "glob*match.cmake", "pipe|name.cmake", "tick`s.cmake"])
                path = os.path.join(d, fname)
                text, mdoc = self.module_text(rng, fname, res)
                with open(path, "w") as f:
                    f.write(text)
                cwd = rng.choice([d, os.path.join(sb, "w"), sb, home])
                arg = rng.choice([path, os.path.relpath(path, cwd)])
                res.see("single_file_arg", "abs" if os.path.isabs(arg) else "rel")
                o = runner.run_main([arg] + base_argv, cwd=cwd, home=home)
                wit = {"argv": [arg] + base_argv, "cwd": cwd, "text": text, "settings": rstcfg}
                res.nontrivial = True
                res.sig = sig_hash(["single", sep, ext_t, ext_m, len(headers), prefix_src, prefix, fname, cwd == d, os.path.isabs(arg),
                                    bool(mdoc), bool(mdoc and mdoc["name"])])
                if not o.ok:
                    res.violate(o.crash_class() or f"exit:{o.exit_code}", str(o.exc)[:200], wit)
                    return res
                pg = os.path.join(out, stem_of(fname) + ".rst")
                if not os.path.exists(pg):
                    res.violate("single-file-page-missing", pg, wit)
                    return res
                rst = open(pg, encoding="utf-8").read()
                wit["rst"] = rst[:600]
                base = (prefix + sep if prefix is not None else "") + fname
                self.check_page(res, rst, base if ext_t else strip_ext(base), base if ext_m else strip_ext(base), headers,
                                mdoc, wit, "single-file")
                res.count("single_file_pages")
                if idx % 60 == 0:
                    res.sample = {"argv": wit["argv"], "first_lines": rst.split("\n")[:8]}
                return res
            tree = gen_tree(rng, max_depth=rng.choice([0, 1, 2, 4]), mixed_case=False, noncmake=False,
                            many_files=rng.choice([0] * 12 + [17, 35, 70]), deep_chain=rng.choice([0] * 25 + [14, 30]))
            mdocs = {}
            for f in list(tree.files):
                tree.files[f], mdocs[f] = self.module_text(rng, f, res)
            inp = os.path.join(sb, "w", "proj")
            links = {}
            if rng.random() < 0.3:
                reals = sorted(tree.files)
                tgt = rng.choice(reals)
                # alias next to (or above) the real file, and an alias of a file outside the tree
                tree.files["alias_of_other.cmake"] = tree.files[tgt]
                mdocs["alias_of_other.cmake"] = mdocs[tgt]
                links["alias_of_other.cmake"] = os.path.join(inp, tgt)
                tree.files["alias_outside.cmake"] = "function(outside_fn)\nendfunction()\n"
                mdocs["alias_outside.cmake"] = None
                links["alias_outside.cmake"] = os.path.join(sb, "w", "shared_elsewhere", "outside.cmake")
            tree.write(inp)
            for rel_, target_ in links.items():
                if not os.path.exists(target_):
                    os.makedirs(os.path.dirname(target_), exist_ok=True)
                    os.replace(os.path.join(inp, rel_), target_)
                else:
                    os.remove(os.path.join(inp, rel_))
                os.symlink(target_, os.path.join(inp, rel_))
                res.count("symlinked_files")
            cwd = os.path.join(sb, "w")
            # further inputs in the same invocation: a second directory and a lone file, documented after the first
            multi = rng.random() < 0.35
            extra_inputs = []
            if multi:
                d2 = os.path.join(sb, "w", "second")
                os.makedirs(os.path.join(d2, "s_sub"))
                for fn in ("s_one.cmake", "s_sub/s_two.cmake"):
                    with open(os.path.join(d2, fn), "w") as f:
                        f.write("function(x)\nendfunction()\n")
                lone = os.path.join(sb, "w", "lone_input.cmake")
                with open(lone, "w") as f:
                    f.write("function(y)\nendfunction()\n")
                extra_inputs = [d2, lone]
                res.count("multi_input_invocations")
            spelled = rng.choice([inp, "proj", "proj/", ".", "./", "proj/../proj"])
            if spelled in (".", "./"):
                cwd = inp
            subs_ = [d_ for d_ in tree.subdirs("") if d_ not in getattr(tree, "virtual", ())]
            if subs_ and not multi and rng.random() < 0.15:
                # the run starts in a sub-directory of the input, which is spelled '..'
                cwd = os.path.join(inp, rng.choice(subs_))
                spelled = rng.choice(["..", "../", "./..", "../."])
            o = runner.run_main([spelled] + extra_inputs + ["-r"] + base_argv, cwd=cwd, home=home)
            res.see("input_spelling", spelled if not os.path.isabs(spelled) else "<absolute>")
            wit = {"argv": base_argv, "settings": rstcfg, "tree_files": sorted(tree.files), "extra_inputs": extra_inputs}
            if not o.ok:
                res.violate(o.crash_class() or f"exit:{o.exit_code}", str(o.exc)[:200], wit)
                return res
            ref = reference_walk(tree, inp, True, True, gitmatch.Spec([]))
            eff_prefix = prefix if prefix is not None else "proj"
            titles = {}
            res.nontrivial = len(ref.pages) >= 2
            for p in ref.pages:
                pg = os.path.join(out, os.path.dirname(p), stem_of(os.path.basename(p)) + ".rst")
                if not os.path.exists(pg):
                    res.violate("page-missing", p, wit)
                    continue
                rst = open(pg, encoding="utf-8").read()
                base = eff_prefix + sep + p
                w2 = dict(wit, page=p, rst=rst[:500], text=tree.files[p][:500])
                t = self.check_page(res, rst, base if ext_t else strip_ext(base), base if ext_m else strip_ext(base), headers,
                                    mdocs[p], w2, "directory")
                if not (mdocs[p] and mdocs[p]["name"]):
                    titles.setdefault(t, []).append(p)
                    res.count("titles_compared_for_injectivity")
            res.sig = sig_hash([sep, ext_t, ext_m, len(headers), prefix_src, prefix, tree.shape(),
                                sorted((k, bool(v), bool(v and v["name"])) for k, v in mdocs.items())])
            if idx % 4 == 1 and not multi:
                # the same pages printed to standard output (no -o): each page's title block and module directive are there
                argv_so = [a for k_, a in enumerate(base_argv) if a != "-o" and (k_ == 0 or base_argv[k_ - 1] != "-o")]
                o_so = runner.run_main([spelled, "-r"] + argv_so, cwd=cwd, home=home)
                res.count("stdout_runs")
                if not o_so.ok:
                    res.violate("stdout-run-failed", str(o_so.exc)[:200], wit)
                else:
                    so = o_so.stdout.replace("\r\n", "\n")
                    for p in ref.pages:
                        base = eff_prefix + sep + p
                        et, em = (base if ext_t else strip_ext(base)), (base if ext_m else strip_ext(base))
                        if mdocs[p] and mdocs[p]["name"]:
                            et = em = mdocs[p]["name"]
                        fr = headers[0] * len(et)
                        res.count("stdout_pages_checked")
                        if f"\n{fr}\n{et}\n{fr}\n" not in "\n" + so:
                            res.violate("title-text:stdout", f"no title block {et!r} on standard output for {p}", dict(wit, stdout=so[:1500]))
                        elif f"\n.. module:: {em}\n" not in so:
                            res.violate("module-name:stdout", f"no '.. module:: {em}' on standard output for {p}", dict(wit, stdout=so[:1500]))
            if multi and o.ok:
                for relp, pfx, base_name in (("s_one.rst", prefix if prefix is not None else "second", "s_one.cmake"),
                                            ("s_sub/s_two.rst", prefix if prefix is not None else "second", "s_sub/s_two.cmake"),
                                            ("lone_input.rst", prefix, "lone_input.cmake")):
                    pg = os.path.join(out, relp)
                    if not os.path.exists(pg):
                        res.violate("page-missing:multi-input", relp, wit)
                        continue
                    base = (pfx + sep if pfx is not None else "") + base_name
                    self.check_page(res, open(pg, encoding="utf-8").read(), base if ext_t else strip_ext(base),
                                    base if ext_m else strip_ext(base), headers, None, dict(wit, page=relp), "later-input")
            for t, ps in titles.items():
                if len(ps) > 1:
                    res.violate("titles-collide", f"{ps} all titled {t!r}", wit)
            if idx % 60 == 1:
                res.sample = {"argv": wit["argv"], "settings": rstcfg, "pages": sorted(ref.pages)[:8]}
        return res

    def check_observed(self, merged, tier):
        o = merged["obs"]
        return [f"{k} < 50" for k in self.HEADLINE if o.get(k, 0) < 50]
