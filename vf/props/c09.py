"""C09 — class entries reflect the cpp_class structure of the source (reference model of class nesting)."""
import re

from ..core import BaseProp, CaseResult, sig_hash
from .. import runner, rstscan, oracle
from ..modgen import Layout, render, expected_entries, Item, Module
from ..genmod import Builder
from .c03 import FAMILIES


def dyck_paths(n):
    """All balanced open/close sequences with n pairs."""
    if n == 0:
        yield ""
        return
    for k in range(n):
        for a in dyck_paths(k):
            for b in dyck_paths(n - 1 - k):
                yield "(" + a + ")" + b


DYCK = [p for n in range(1, 4) for p in dyck_paths(n)]     # 1+2+5 = 8 shapes of <=3 classes


class Prop(BaseProp):
    ID = "C09"
    PIPELINES = True      # a fixed share of the cases goes through cminx.main (-o and stdout) instead of the Documenter
    ANCHORS = ['cminx.aggregator:DocumentationAggregator.process_cpp_class', 'cminx.aggregator:DocumentationAggregator.process_cpp_member', 'cminx.aggregator:DocumentationAggregator.process_cpp_constructor', 'cminx.aggregator:DocumentationAggregator.process_cpp_attr', 'cminx.documentation_types:ClassDocumentation.process', 'cminx.documentation_types:AttributeDocumentation.process']
    LEVEL = "exploration"
    RULE = ("class structures: 1-5 sibling classes, nesting to depth 4, siblings after nested classes, attributes/"
            "members/constructors in any order before and after inner classes, 0-5 declared types incl. variadic "
            "'args', implementing function or macro with bodies (sets, nested definitions, blocks), member strip "
            "patterns from constructive families; plus every Dyck shape of <=3 classes x member placement in each "
            "region (thorough: exhaustive). Distinct = module shape; non-trivial = a class with >=1 member")
    ASSUMPTIONS = ["default include_undocumented_* settings", "declarations immediately followed by their definition",
                   "':type p:' fields only asserted when the doc text does not itself contain ':type p:'/':param p:'",
                   "rendering of variadic members: optional trailing '[, ...]' accepted iff 'args' is among the types"]
    HEADLINE = ["classes_checked", "members_checked", "type_fields_checked", "inner_lists_checked"]

    NR = {"quick": 4000, "thorough": 50000}

    def n_cases(self, tier):
        return self.NR[tier] + len(DYCK) * (4 if tier == "quick" else 40)

    def setup_worker(self):
        runner.cminx()

    def build_dyck(self, rng, b, shape):
        """Classes opened/closed as `shape` says, with members dropped into every region."""
        pos = [0]

        def region(cls, depth):
            out = []
            for _ in range(rng.choice([0, 1, 1, 2])):
                c = rng.random()
                if cls is None:
                    out.append(rng.choice([b.plain, b.set_, lambda: b.definition(depth)])())
                elif c < 0.35:
                    out.append(b.attr(cls))
                elif c < 0.7:
                    out.append(b.member(depth, cls))
                elif c < 0.85:
                    out.append(b.member(depth, cls, ctor=True))
                else:
                    out.append(b.plain())
            return out

        def parse(cls, depth):
            items = region(cls, depth)
            while pos[0] < len(shape) and shape[pos[0]] == "(":
                pos[0] += 1
                uid = b.new_uid()
                nm = b.name("Cls", uid)
                bases = [rng.choice(["Base", "ns::B"]) for _ in range(rng.choice([0, 0, 1, 2]))]
                body = parse(nm, depth + 1)
                pos[0] += 1        # the ')'
                items.append(Item("cpp_class", "cpp_class", [nm] + bases, uid, doc=b.doc(uid), body=body,
                                  endcmd="cpp_end_class", name=nm, bases=bases))
                items.extend(region(cls, depth))
            return items
        return Module(parse(None, 0))

    def run_case(self, idx, rng):
        res = CaseResult()
        mbre = rng.choice(list(FAMILIES))

        others = [k for k in FAMILIES if k and k != mbre and not ({k, mbre} <= {"^_[a-z]+_", "^_[a-zA-Z]*_"})
                  and not ({k, mbre} <= {"_in$", "(_in|_out)$"}) and "PFX" not in (k, mbre)]
        fre = rng.choice(others) if (others and rng.random() < 0.5) else ""
        mre = rng.choice(others) if (others and rng.random() < 0.5) else ""

        def mkparam(r, uid, j, kind):
            core = f"pN{uid}Z{j}"
            if kind != "member" or r.random() < 0.2:
                return core, core
            # the inner decoration is one the function/macro pattern would strip; only the member pattern may act
            inner = core
            dec = r.choice([fre, mre, ""])
            if dec:
                inner = FAMILIES[dec](r, core)
            return FAMILIES[mbre](r, inner), inner
        b = Builder(rng, p_doc=0.5, max_depth=4, max_items=4, mkparam=mkparam, compound_generic=False,
                    kinds=["cpp_class", "cpp_class", "cpp_class", "function", "plain", "set", "block"], p_clone=0.08,
                    class_arg_variants=True, virtual_members=True, p_doc_impl=0.2, trigger=":keyword", p_trigger=0.15, p_end_doc=0.1)
        nr = self.NR[self.tier]
        if idx < nr:
            mod = b.module()
            mode = "random"
        else:
            shape = DYCK[(idx - nr) % len(DYCK)]
            b.max_depth = 2
            mod = self.build_dyck(rng, b, shape)
            mode = "dyck:" + shape
        text = render(mod, Layout(rng, comments=0.1, wild=0.2, case="random"))
        exp = expected_entries(mod)
        classes = [e for e in exp if e.kind == "class"]
        res.sig = sig_hash([mod.shape(), mode])
        res.nontrivial = any(e.attrs or e.methods or e.ctors for e in classes)
        res.see("mode", mode)
        res.see("member_strip", mbre)
        settings = runner.make_settings(input={"member_parameter_name_strip_regex": mbre,
                                               "function_parameter_name_strip_regex": fre,
                                               "macro_parameter_name_strip_regex": mre})
        res.see("function_macro_patterns_set", bool(fre or mre))
        # hand-written ':type <p>:' lines in some member doccomments: the remaining parameters still pair position-wise
        handwritten = {}
        for it in mod.walk():
            if it.kind in ("cpp_member", "cpp_constructor") and it.doc is not None and rng.random() < 0.35:
                k = min(len(it.gt["types"]), len(it.gt["params"]))
                if k >= 2:
                    chosen = [i for i in range(k) if rng.random() < 0.4] or [0]
                    for i in chosen:
                        it.doc.append(f"{{L{it.uid}.{len(it.doc)}}}")
                        it.doc[-1] = f":type {it.gt['params'][i]}: handwritten {it.doc[-1]}"
                    handwritten[id(it)] = set(chosen)
        if handwritten:
            text = render(mod, Layout(rng, comments=0.1, wild=0.2, case="random"))
            res.count("members_with_handwritten_type_lines", len(handwritten))
        o, _ = runner.document_text(text, settings)
        wit = {"text": text, "member_strip": mbre}
        if not o.ok:
            res.violate(o.crash_class() or "exit", f"{type(o.exc).__name__}: {str(o.exc)[:200]}", wit)
            return res
        wit["rst"] = o.value
        nv = len(res.violations)
        page = rstscan.Page(o.value)
        matched = oracle.compare_sequence(res, exp, oracle.observed_top(page), "top", b.unasserted_impl_names)

        def depth_of(it, d=0):
            return max([d] + [depth_of(x, d + 1) for x in (it.body or []) if x.kind == "cpp_class"])
        for it in mod.items:
            if it.kind == "cpp_class":
                res.see("class_depths", depth_of(it, 1))
        for e, n in matched.pairs:
            if e.kind != "class":
                continue
            res.count("classes_checked")
            if n.arg != e.name:
                res.violate("class-name", f"{n.arg!r} vs {e.name!r}", None)
            sub = oracle.compare_class(res, e, n, "class")
            res.count("inner_lists_checked")
            # bases
            lines = [l.strip() for l in n.text_lines()]
            want_b = "Bases: " + ", ".join(f":class:`{x}`" for x in e.bases) if e.bases else None
            got_b = [l for l in lines if l.startswith("Bases:")]
            if (want_b is None and got_b) or (want_b is not None and got_b != [want_b]):
                res.violate("bases", f"class {e.name}: {got_b} expected {want_b!r}", None)
            for m, c in sub.pairs:
                if m.kind not in ("method", "ctor"):
                    continue
                res.count("members_checked")
                variadic = "args" in m.types
                mm = re.fullmatch(re.escape(m.name) + r"\((.*?)(\[, \.\.\.\])?\)", c.arg)
                if not mm:
                    res.violate("method-heading-shape", f"{c.arg!r}", None)
                    continue
                got_params = [p for p in mm.group(1).split(", ")] if mm.group(1) else []
                if got_params != m.params:
                    cls_ = "method-params"
                    if len(got_params) == len(m.params) + 1:
                        cls_ = "method-params:self-or-name-kept"
                    res.violate(cls_, f"{m.name}: params {got_params}, expected {m.params} (impl args "
                                f"{m.item.impl.args})", None)
                if bool(mm.group(2)) and not variadic:
                    res.violate("method-variadic-marker", f"{c.arg!r} but types {m.types}", None)
                is_macro_note = any("macro" in x.arg for x in c.find("note"))
                if is_macro_note != m.is_macro:
                    res.violate("method-macro-note", f"{m.name}: note={is_macro_note}, definition is "
                                f"{m.item.impl.cmd}", None)
                # type pairing, position-wise
                tl = [l.strip() for l in c.text_lines()]
                hw = handwritten.get(id(m.item), set())
                for i in range(min(len(m.types), len(m.params))):
                    if i in hw:
                        continue      # the author documented this one; only the others are asserted
                    want = f":type {m.params[i]}: {m.types[i]}"
                    res.count("type_fields_checked")
                    if want not in tl:
                        got = [l for l in tl if l.startswith(":type ")]
                        cls_ = "method-type-pairing" + (":with-handwritten-type-lines" if hw else "")
                        res.violate(cls_, f"{m.name}: missing {want!r}; fields {got}", None)
                extra = [l for l in tl if l.startswith(":type ") and "handwritten" not in l]
                if len(extra) != min(len(m.types), len(m.params)) - len(hw):
                    res.violate("method-type-count", f"{m.name}: {extra}", None)
            for a, c in sub.pairs:
                if a.kind != "attr":
                    continue
                res.count("members_checked")
                opts = [l.strip() for l in c.text_lines() if l.strip().startswith(":value:")]
                if a.default is None:
                    if opts:
                        res.violate("attr-value-unexpected", f"{a.name}: {opts}", None)
                elif opts != [f":value: {a.default}"]:
                    res.violate("attr-value", f"{a.name}: {opts}, default written {a.default!r}", None)
                if c.arg != a.name:
                    res.violate("attr-name", f"{c.arg!r} vs {a.name!r}", None)
        for v in res.violations[nv:]:
            v["witness"] = wit
        if idx % 70 == 0:
            res.sample = {"mode": mode, "text": text[:1500], "expected": [e.brief() for e in classes][:5]}
        return res

    def check_observed(self, merged, tier):
        o = merged["obs"]
        out = [f"{k} < 100" for k in ("classes_checked", "members_checked", "type_fields_checked") if o.get(k, 0) < 100]
        modes = set(merged["sets"].get("mode", []))
        if len([m for m in modes if m.startswith("dyck")]) < len(DYCK):
            out.append("not every Dyck shape was run")
        return out

    def extra_coverage(self, merged, tier):
        return {"exhaustive": True, "exhaustive_dimension": f"all {len(DYCK)} open/close shapes of <=3 classes"}
