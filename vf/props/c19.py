"""C19 — cminx_gen_rst() in CMake is equivalent to the command line (argv-recording shim + differential)."""
import os
import stat
import subprocess

from ..core import BaseProp, CaseResult, sig_hash, repo_root, PY
from .. import runner, fsrun
from ..treegen import gen_tree, cmake_text
from .c17 import read_tree

SHIM = """#!/bin/sh
# argv-recording shim bound to CMINX_EXECUTABLE: logs its arguments (NUL separated, record ends with \\n==\\n), then runs
# the working tree's command line entry point
for a in "$@"; do printf '%s\\0' "$a" >> "{log}"; done
printf '\\n==\\n' >> "{log}"
PYTHONPATH="{src}" PYTHONWARNINGS=ignore PYTHONDONTWRITEBYTECODE=1 exec {py} {entry} "$@"
"""
# what the executable is: the console script of a pip installation, or src/main.py -- the script the CMake build freezes into
# the `cminx` binary that the package config binds CMINX_EXECUTABLE to
ENTRY = {"console": """-c 'import sys; from cminx import main; main(sys.argv[1:])'""", "main.py": '"{src}/main.py"'}

PKG_INIT = """
macro(set_and_check _var _file)
  set(${_var} "${_file}")
  if(NOT EXISTS "${_file}")
    message(FATAL_ERROR "File or directory ${_file} referenced by variable ${_var} does not exist !")
  endif()
endmacro()
macro(check_required_components _NAME)
endmacro()
"""


def q(s):
    return '"' + s.replace("\\", "\\\\").replace('"', '\\"').replace("$", "\\$") + '"'


class Prop(BaseProp):
    ID = "C19"
    LEVEL = "exploration"
    RULE = ("inputs (single files, flat and nested directories, missing paths, files with parser and lexer faults) x "
            "extra-argument lists (none, -p P, -e pat, -s file, combinations, values with spaces) driven through "
            "`cmake -P` calling the working tree's cminx_gen_rst with CMINX_EXECUTABLE bound to an argv-recording "
            "shim; monitors: recorded argv == [input] + (-r iff directory) + extra + [-o output]; output tree "
            "byte-equal to a direct CLI run with those arguments; on CLI failure cmake fails and the script line after "
            "the call never runs; the package-config template resolves CMINX_EXECUTABLE and includes the module (also loaded "
            "inside a function scope with the call made from the outer scope). "
            "Distinct = (input kind, extra-argument shape); non-trivial = directory input or extra arguments")
    ASSUMPTIONS = ["extra argument values are non-empty and contain no ';' (CMake list semantics are outside the "
                   "quantifier)", "CMake 3.25.1 as host", "PACKAGE_INIT macros are stubbed for the template check"]
    HEADLINE = ["cmake_runs", "argv_records_checked", "trees_compared", "failure_cases", "template_checks"]

    def n_cases(self, tier):
        return 132 if tier == "quick" else 1980

    def setup_worker(self):
        runner.cminx()

    def run_case(self, idx, rng):
        res = CaseResult()
        KINDS = ["file", "flat", "nested", "missing", "syntax", "lexer", "nested", "template", "nested-broken", "exe-missing", "exe-killed"]
        kind = KINDS[idx % 11]
        res.see("input_kinds", kind)
        with runner.sandbox() as sb:
            home = os.path.join(sb, "home")
            os.makedirs(os.path.join(home, ".config", "cminx"))
            src = os.path.join(repo_root(), "src")
            log = os.path.join(sb, "argv.log")
            shim = os.path.join(sb, "bin", "cminx")
            os.makedirs(os.path.dirname(shim))
            with open(shim, "w") as f:
                entry = "main.py" if idx // 11 % 2 else "console"
                res.see("executable_entry_points", entry)
                f.write(SHIM.format(log=log, src=src, py=PY, entry=ENTRY[entry].format(src=src)))
            os.chmod(shim, 0o755)
            env = dict(os.environ, HOME=home, XDG_CONFIG_DIRS=os.path.join(home, "nox"))
            env.pop("XDG_CONFIG_HOME", None)
            env.pop("CMINXDIR", None)
            if idx // 11 % 3 == 1:
                # the person who runs cmake has a per-user CMinx configuration: the executable started by cminx_gen_rst() reads it
                # like the one started from the command line
                fsrun.write_yaml(os.path.join(home, ".config", "cminx", "config.yaml"),
                                 {"rst": {"file_extensions_in_titles": True, "headers": ["=", "-", "~"]},
                                  "input": {"include_undocumented_function": False}})
                res.count("runs_with_a_per_user_configuration_file")
            if kind == "template":
                tpl = open(os.path.join(repo_root(), "cmake", "templates", "cminx-config.cmake.in")).read()
                cmdir = os.path.join(repo_root(), "cmake")
                conf = tpl.replace("@PACKAGE_INIT@", PKG_INIT).replace("@PACKAGE_CMINX_BIN_DIR@", os.path.dirname(shim)) \
                          .replace("@PACKAGE_CMINX_CMAKE_DIR@", cmdir)
                cf = os.path.join(sb, "cminx-config.cmake")
                with open(cf, "w") as f:
                    f.write(conf)
                other = os.path.join(sb, "venv_prefix", "bin", "cminx")
                os.makedirs(os.path.dirname(other))
                with open(other, "w") as f:
                    f.write("#!/bin/sh\necho other cminx\n")
                os.chmod(other, 0o755)
                prefix_line = f'set(CMAKE_PREFIX_PATH {q(os.path.join(sb, "venv_prefix"))})\nset(CMAKE_PROGRAM_PATH {q(os.path.dirname(other))})\n' \
                    if idx // 11 % 2 else ""
                res.see("template_with_other_cminx_on_prefix_path", bool(prefix_line))
                drv = os.path.join(sb, "t.cmake")
                # the package may be loaded in another scope than the one cminx_gen_rst is called from (find_package inside a
                # function or a sub-directory): the call must find the executable there too
                scoped = idx // 22 % 2 == 1
                res.see("template_loaded_in_inner_scope", scoped)
                one = os.path.join(sb, "one.cmake")
                with open(one, "w") as f:
                    f.write("#[[[\n# doc\n#]]\nfunction(tpl_fn a)\nendfunction()\n")
                load = f'include({q(cf)})\n' if not scoped else f'function(load_the_package)\n  include({q(cf)})\nendfunction()\nload_the_package()\n'
                with open(drv, "w") as f:
                    f.write(prefix_line + load + f'if(NOT COMMAND cminx_gen_rst)\n message(FATAL_ERROR "no function")\nendif()\n'
                            f'file(WRITE {q(os.path.join(sb, "exe.txt"))} "${{CMINX_EXECUTABLE}}")\n'
                            f'cminx_gen_rst({q(one)} {q(os.path.join(sb, "tpl_out"))})\n')
                p = subprocess.run(["cmake", "-P", drv], capture_output=True, env=env, cwd=sb, timeout=120)
                res.count("template_checks")
                res.count("cmake_runs")
                res.sig = sig_hash(["template", idx // 11 % 2, scoped])
                res.nontrivial = True
                got = open(os.path.join(sb, "exe.txt")).read() if os.path.exists(os.path.join(sb, "exe.txt")) else None
                if p.returncode != 0 or got is None or os.path.realpath(got) != os.path.realpath(shim):
                    res.violate("package-config-template" + (":loaded-in-inner-scope" if scoped else ""),
                                f"rc={p.returncode} CMINX_EXECUTABLE={got!r} expected {shim!r}: "
                                f"{p.stderr.decode()[-300:]}", {"config": conf, "driver": open(drv).read()})
                elif not os.path.exists(os.path.join(sb, "tpl_out", "one.rst")):
                    res.violate("package-config-template:call-produced-no-page", f"scoped={scoped}", {"config": conf, "driver": open(drv).read()})
                return res
            tree = gen_tree(rng, max_depth={"flat": 0, "nested": 3, "nested-broken": 2}.get(kind, 1), noncmake=False, mixed_case=False,
                            rich=True, p_sub=1.0 if kind == "nested-broken" else 0.6)
            if kind == "nested-broken":
                # a syntax error in a directory that is NOT the last one walked: valid modules follow in later directories
                tree.files["k_broken_first.cmake"] = "function(never_closed\n"
                if rng.random() < 0.5:
                    for k_ in range(rng.choice([17, 33, 40, 70])):          # scale: the directory holds tens of modules
                        tree.files[f"n_more_{k_:03d}.cmake"] = cmake_text(f"n_more_{k_:03d}.cmake")
                tree.dirs.add("zzz_last")
                tree.files["zzz_last/fine.cmake"] = cmake_text("zzz_last/fine.cmake")
            # (the directory the input lives in may carry characters that are special in glob patterns: a path is a path)
            wname = rng.choice(["w", "w", "w", "w[x86_64]", "w*s", "w?q", "w{a,b}", "w:v2", "~w"])
            res.see("input_parent_directory_names", wname)
            inp_dir = os.path.join(sb, wname, "proj")
            tree.write(inp_dir)
            if kind in ("file", "syntax", "lexer"):
                target = os.path.join(inp_dir, "top_input.cmake")
                body = cmake_text("top_input.cmake", rich=True)
                if kind == "syntax":
                    body += "function(broken\n"
                elif kind == "lexer":
                    body += 'set(x "unterminated)\n'
                with open(target, "w") as f:
                    f.write(body)
            elif kind == "missing":
                target = os.path.join(sb, wname, "does-not-exist")
            else:
                target = inp_dir
            # extra argument lists
            scfg = os.path.join(sb, "cfg", "extra.yaml")
            scfg_data = {"rst": {"file_extensions_in_titles": True}}
            if idx // 11 % 4 == 2:
                # a settings file with a logging section of its own that does not mention CMinx's logger
                # (the section is Python's logging dictConfig itself and replaces the default one as a whole)
                scfg_data["logging"] = {"version": 1, "disable_existing_loggers": True,
                                        "handlers": {"null": {"class": "logging.NullHandler"}},
                                        "root": {"handlers": ["null"], "level": "CRITICAL"}}
                res.count("settings_files_with_own_logging_section")
            fsrun.write_yaml(scfg, scfg_data)
            pool = [[], ["-p", "Pfx"], ["-e", "e*.cmake"], ["-s", scfg], ["-p", "My Prefix"], ["-e", "a*", "-e", "b.cmake"],
                    ["-p", "P", "-s", scfg, "-e", "top.cmake"], ["-p", "x(y)"], ["-p", "$dollar"], ["-e", "*.md", "-p", "a b c"],
                    ["-e", "sub/"], ["-e", "a*/", "-p", "x/"], ["-p", "back\\slash"], ["-e", "e*/", "-e", "zz/"], ["-p", "trailing "]]
            extra = pool[(idx // 11 + rng.randrange(3)) % len(pool)]
            if "logging" in scfg_data:
                extra = list(pool[3] if idx // 11 % 8 == 2 else pool[6])      # (such a file has to be handed over to matter)
            run_cwd = os.path.join(sb, "started_here")       # cmake (and the direct command line) run from here,
            os.makedirs(run_cwd)                              # the driver script lives one level up
            # (output names may carry characters that mean something to CMake's path functions: ':' is a list separator
            #  for file(TO_CMAKE_PATH), '~' is expanded, a backslash becomes a slash)
            osfx = rng.choice(["", "", "", ":2026-10-03T04:30", "~1", " and blank"])
            res.see("output_name_suffixes", osfx)
            out1 = os.path.join(sb, "out_cmake" + osfx)
            out2 = os.path.join(sb, "out_cli" + osfx)
            rel_out = rng.random() < 0.35
            if rel_out:
                out1_arg, out2_arg = "rel_out_cmake" + osfx, "rel_out_cli" + osfx
                out1, out2 = os.path.join(run_cwd, out1_arg), os.path.join(run_cwd, out2_arg)
                res.count("relative_output_runs")
            else:
                out1_arg, out2_arg = out1, out2
            if kind in ("flat", "nested", "file") and rng.random() < 0.3:
                # the input is reached through a symbolic link with another name
                link = os.path.join(sb, wname, "linked_input" + (".cmake" if kind == "file" else ""))
                os.symlink(target, link)
                target = link
                res.count("symlinked_inputs")
            marker = os.path.join(sb, "continued.txt")
            drv = os.path.join(sb, "driver.cmake")
            # history: in some runs the same input was already documented into the same output by an earlier call of the
            # same cmake process, with OTHER extra arguments; every call is a run of the executable of its own
            extra0 = None
            if kind in ("file", "flat", "nested") and rng.random() < 0.3:
                extra0 = rng.choice([e for e in pool if e != extra])
                res.count("second_call_same_input_and_output")
            # ... or with the SAME arguments, but the settings file named by -s was edited between the two calls
            cfg_first = "rst:\n  file_extensions_in_titles: true\n"
            cfg_second = "rst:\n  file_extensions_in_titles: false\n  prefix: SecondRun\ninput:\n  exclude_filters: ['top.cmake']\n"
            same_args = extra0 is not None and "-s" in extra and rng.random() < 0.6
            if same_args:
                extra0 = extra
                res.count("second_call_same_arguments_settings_file_edited")
            first_call = "" if extra0 is None else \
                f'cminx_gen_rst({q(target)} {q(out1 if not rel_out else out1_arg)} {" ".join(q(e) for e in extra0)})\n'
            if same_args:
                first_call += f'file(WRITE {q(scfg)} {q(cfg_second)})\n'
            exe = shim
            if kind == "exe-missing":
                # the executable cannot be started at all (stale path, launcher whose interpreter is gone)
                exe = rng.choice([os.path.join(sb, "bin", "no-such-cminx"), os.path.join(sb, "bin", "cminx_bad_interpreter")])
                if exe.endswith("bad_interpreter"):
                    with open(exe, "w") as f:
                        f.write("#!/no/such/interpreter\n")
                    os.chmod(exe, 0o755)
            elif kind == "exe-killed":
                # CMinx does not end with an exit status: it is terminated by a signal
                exe = os.path.join(sb, "bin", "cminx_killed")
                with open(exe, "w") as f:
                    f.write("#!/bin/sh\nkill -%s $$\nsleep 5\n" % rng.choice(["9", "15", "11"]))
                os.chmod(exe, 0o755)
            with open(drv, "w") as f:
                f.write(f'set(CMINX_EXECUTABLE {q(exe)})\ninclude({q(os.path.join(repo_root(), "cmake", "cminx.cmake"))})\n'
                        + first_call +
                        f'cminx_gen_rst({q(target)} {q(out1 if not rel_out else out1_arg)} {" ".join(q(e) for e in extra)})\n'
                        f'file(WRITE {q(marker)} "continued")\n')
            preexisting = rng.random() < 0.4
            if preexisting:
                # an earlier call (or the user) already created the output directory: the call must still document
                for o_ in (out1, out2):
                    os.makedirs(o_)
                    with open(os.path.join(o_, "left_over_from_earlier_call.txt"), "w") as f:
                        f.write("x")
                res.count("output_directory_existed_before")
            res.sig = sig_hash([kind, extra, tree.shape(), preexisting, extra0])
            res.nontrivial = kind in ("flat", "nested") or bool(extra)
            p = subprocess.run(["cmake", "-P", drv], capture_output=True, env=env, cwd=run_cwd, timeout=300)
            res.count("cmake_runs")
            wit = {"kind": kind, "extra": extra, "driver": open(drv).read(), "cmake_rc": p.returncode,
                   "cmake_stderr": p.stderr.decode("utf-8", "replace")[-600:]}
            if kind in ("exe-missing", "exe-killed"):
                res.count("failure_cases")
                res.nontrivial = True
                if p.returncode == 0:
                    res.violate(f"cmake-continues-although-cminx-did-not-run-to-an-exit-status:{kind}", "cmake exited 0", wit)
                if os.path.exists(marker):
                    res.violate(f"script-continued-after-failure:{kind}", "the line after cminx_gen_rst() was executed", wit)
                return res
            # (1) argv as received by the executable
            recs = []
            if os.path.exists(log):
                raw = open(log, "rb").read().decode("utf-8", "replace")
                for rec in raw.split("\n==\n"):
                    if rec:
                        recs.append(rec.split("\0")[:-1])
            want = [target] + (["-r"] if os.path.isdir(target) else []) + extra + ["-o", out1_arg]
            want_all = [want]
            if extra0 is not None:
                want0 = [target] + (["-r"] if os.path.isdir(target) else []) + extra0 + ["-o", out1_arg]
                want_all = [want0, want]
                if same_args:
                    with open(scfg, "w") as f_:
                        f_.write(cfg_first)
                runner.run_cli(want0[:-1] + [out2_arg], cwd=run_cwd, home=home)        # the same history on the command line
                if same_args:
                    with open(scfg, "w") as f_:
                        f_.write(cfg_second)
            res.count("argv_records_checked")
            if recs != want_all:
                cls = "argv"
                if recs and ("-r" in recs[0]) != ("-r" in want):
                    cls = "argv:recursive-flag"
                elif not recs:
                    cls = "argv:executable-not-invoked"
                if extra0 is not None and len(recs) < 2:
                    cls = "argv:second-call-did-not-run-the-executable"
                res.violate(cls, f"executable received {recs}, expected {want_all}", wit)
            # (2) differential against the direct command line
            rc, so, se = runner.run_cli(want[:-1] + [out2_arg], cwd=run_cwd, home=home)
            if rc != 0:
                res.count("failure_cases")
                if p.returncode == 0:
                    res.violate("cmake-continues-after-cminx-failure", f"direct run exits {rc}, cmake exited 0", wit)
                if os.path.exists(marker):
                    res.violate("script-continued-after-failure", "the line after cminx_gen_rst() was executed", wit)
            else:
                if p.returncode != 0:
                    res.violate("cmake-fails-though-cli-succeeds", wit["cmake_stderr"], wit)
                elif not os.path.exists(marker):
                    res.violate("script-did-not-continue", "", wit)
                t1 = read_tree(out1) if os.path.isdir(out1) else {}
                t2 = read_tree(out2) if os.path.isdir(out2) else {}
                res.count("trees_compared")
                res.count("files_compared", len(t2))
                if t1 != t2:
                    diff = sorted(k for k in set(t1) | set(t2) if t1.get(k) != t2.get(k))
                    res.violate("output-tree-differs-from-cli", f"{diff[:5]}", wit)
            if kind in ("missing", "syntax", "lexer", "nested-broken") and rc == 0:
                res.violate(f"cli-accepts-faulty-input:{kind}", "direct run exits 0", wit)
            if idx % 11 in (1, 2):
                res.sample = {"kind": kind, "extra": extra, "argv_seen": recs, "cmake_rc": p.returncode}
        return res

    def check_observed(self, merged, tier):
        o = merged["obs"]
        return [f"{k} < 5" for k in self.HEADLINE if o.get(k, 0) < 5]
