"""C01 — doccomment text reaches the output verbatim (unique-id line ledger)."""
import os

from ..core import BaseProp, CaseResult, sig_hash
from .. import runner, rstscan, oracle
from ..modgen import Layout, render, expected_entries, LINE_ID, Entry
from ..genmod import Builder

NONASCII = ["ünï", "✓ done", "日本語のテキスト", "é combining", "Ωmega→∞", "naïve café", "ｗｉｄｅ", "😀 emoji",
            "Ελληνικά", "кириллица", " nbsp", "ß«»"]
PREFIXES = ["#", "##", "[", "]", ":", "..", ".. ", ":param x:", "[=[", "] ", "#[", "# ", "-", "*", "|", ">>>", "\\", "`",
            "**", "=====", "\"", "(", ")", "${", "@module", "#]", "] ]", ":param **kwargs: ", ":param *args: ", ":keyword **opts: ",
            ":type **kwargs: ", "* ", "** bold** ", ":returns: *", "\\* ", "|sub| ", "`` ", "__ "]
WORDS = ["alpha", "beta", "the", "value", "of", "x", "::", "end.", "a,b", "(see)", "`code`", "*em*"]
SUFFIXES = ["", "", "", " #", " ]", " #]", "#", " trailing  ", "\t", " :", " \\"]


def hostile_line(rng, uid, k):
    cls = rng.choice(["plain", "plain", "prefix", "spaces", "tab", "punct", "nonascii", "empty", "suffix", "long"])
    lid = f"{{L{uid}.{k}}}"
    body = " ".join(rng.choice(WORDS) for _ in range(rng.randint(0, 5)))
    if cls == "empty":
        return "", cls
    if cls == "plain":
        t = f"{lid} {body}"
    elif cls == "prefix":
        t = rng.choice(PREFIXES) + lid + " " + body
    elif cls == "spaces":
        t = " " * rng.randint(1, 8) + lid + " " + body
    elif cls == "tab":
        t = lid + "\tafter\ttab " + body
    elif cls == "punct":
        t = rng.choice(["####", "----", "[][][", "::::", "....", "!?!"]) + lid + rng.choice(["####", "]", "#", "::"])
    elif cls == "nonascii":
        t = rng.choice(NONASCII) + " " + lid + " " + rng.choice(NONASCII)
    elif cls == "suffix":
        t = lid + " " + body + rng.choice(SUFFIXES)
    else:
        t = lid + " " + " ".join(rng.choice(WORDS) for _ in range(rng.randint(20, 60)))
    t = t.replace("]]", "] ]")
    return t, cls


class Prop(BaseProp):
    ID = "C01"
    PIPELINES = True      # a fixed share of the cases goes through cminx.main (-o and stdout) instead of the Documenter
    ANCHORS = ['cminx.aggregator:DocumentationAggregator.clean_doc_lines', 'cminx.aggregator:DocumentationAggregator.enterDocumented_command', 'cminx.aggregator:DocumentationAggregator.enterDocumented_module', 'cminx.rstwriter:Paragraph.build_text_string', 'cminx.documenter:Documenter.__init__']
    LEVEL = "exploration"
    RULE = ("modules whose doccomments (canonical form, 0-40 lines drawn from 10 hostile line classes incl. non-ASCII, "
            "leading '#[]:..', leading spaces, trailing '#]', empty) are attached to every documentable kind at "
            "depth 0-3 with random block indentation (spaces/tabs), read from UTF-8 files by the real Documenter; "
            "a third of the cases under non-empty parameter strip patterns with doc lines that name the raw parameters; oracle = unique-id ledger (each generated line exactly once, verbatim, in order, under its own entry). "
            "Distinct = module shape + line-class sequence; non-trivial = at least 3 doc lines")
    ASSUMPTIONS = ["canonical doccomment form only (as the quantifier states)", "no ']]' inside doc text",
                   "trailing-space policy on whitespace-only lines is not asserted",
                   "leaderless doccomments only unindented with letter-initial lines",
                   "CLI sample runs use a UTF-8 locale (C.UTF-8)"]
    HEADLINE = ["doc_lines_expected", "doc_lines_verified", "docs_checked", "nonascii_lines", "cli_runs"]

    def n_cases(self, tier):
        return (6000 if tier == "quick" else 60000) + 1      # last case: contracts under the repository's own tests

    def setup_worker(self):
        runner.cminx()

    def contracts_case(self, res):
        """Runtime contracts on the real functions while the repository's own tests run (vf/pytest_contracts.py)."""
        from ..contracts_run import run_repo_tests
        rc, out, data = run_repo_tests(['tests/unit_tests/test_aggregator.py', 'tests/test_samples', 'tests/unit_tests/test_documenter.py'])
        res.sig = "contracts-under-repo-tests"
        res.nontrivial = True
        if data is None:
            res.skipped = "contract-run-produced-no-report"
            return res
        res.see("contract_backend", "icontract" if data.get("icontract") else "in-house wrapper")
        for k, v in data["evaluations"].items():
            res.count("contract_evaluations_under_repo_tests:" + k, v)
        for v in data["violations"]:
            if v["kind"] in ('clean_doc_lines-postcondition',):
                res.violate("contract-under-repo-tests:" + v["kind"], v["detail"], {"tests": ['tests/unit_tests/test_aggregator.py', 'tests/test_samples', 'tests/unit_tests/test_documenter.py']})
        res.sample = {"contracts_under_repo_tests": data["evaluations"], "pytest_tail": out[-120:]}
        return res

    def run_case(self, idx, rng):
        if idx == self.n_cases(self.tier) - 1:
            return self.contracts_case(CaseResult())
        res = CaseResult()
        classes = []
        ascii_only = idx % 3 == 0

        def mkdoc(r, uid):
            n = r.choice([0, 1, 2, 3, 5, 8, r.randint(0, 40)])
            lines = []
            for k in range(n):
                while True:
                    t, c = hostile_line(r, uid, k)
                    if not (ascii_only and c == "nonascii"):
                        break
                lines.append(t)
                classes.append(c)
            return lines
        big = idx % 40 == 7 and not ascii_only
        # big: a module of several tens of kilobytes with non-ASCII text everywhere (block-wise readers, buffers)
        b = Builder(rng, p_doc=0.9 if big else 0.8, max_depth=3, mkdoc=mkdoc, max_items=(90 if idx % 80 == 7 else 420) if big else 5, compound_generic=False, class_arg_variants=True)
        if big:
            res.count("large_modules")
            b_min = 0 if idx % 80 == 7 else 150          # (every other large module has at least 150 top-level items: > 64 KiB)
        mod = b.module(module_doc=rng.random() < 0.3, module_name=rng.choice(["", "", "modN0Z", "my.mod-N0Z"]))
        if big and b_min and len(mod.items) < b_min:
            mod.items = b._fix_dangling(mod.items + b.items(0, n=b_min), 0)
        # leaderless variant for some documented items: unindented, letter-initial lines
        for it in mod.walk():
            if it.doc is not None and it.kind != "dangling" and rng.random() < 0.1:
                # (with '#', '[' and ']' in the middle of a line: only a leading run of them is comment syntax)
                mid = ["text", "text", "see items[0] and items[-1] here", "issue #42 applies", "one of [0, 1] (#3) ok", "C# [out] done",
                       "a ]]odd[[ b", "x #[[ y"]
                it.doc = [f"Line {{L{it.uid}.{k}}} {rng.choice(mid)}" if rng.random() < 0.8 else f"word{{L{it.uid}.{k}}}"
                          for k in range(rng.randint(1, 4))]
                it.leaderless = True
                res.count("leaderless_docs")
        # doccomments on implementing definitions (the first definition after a member/test declaration): whatever entry
        # they get, their text must not be lost
        doc_impls = []
        if rng.random() < 0.3:
            for it in mod.walk():
                if it.impl is not None and it.impl.doc is None and rng.random() < 0.5:
                    it.impl.doc = mkdoc(rng, it.impl.uid) or [f"{{L{it.impl.uid}.0}} implementation text"]
                    doc_impls.append(it.impl)
        # settings that act on signatures only (parameter-name strip patterns), together with doc text that mentions the raw
        # parameter names: the text must still arrive verbatim
        st_in = {}
        if idx % 3 == 1:
            pat = rng.choice(["^p", "Z\\d+$", "^pN", "N"])
            st_in = {"function_parameter_name_strip_regex": pat, "macro_parameter_name_strip_regex": rng.choice([pat, "^p"]),
                     "member_parameter_name_strip_regex": rng.choice(["", pat])}
            res.count("cases_with_parameter_strip_patterns")
            for it in mod.walk():
                ps = it.gt.get("params") or []
                if it.doc and ps and it.kind != "dangling":
                    ks = [k for k, t in enumerate(it.doc) if LINE_ID.search(t)]
                    for k in rng.sample(ks, min(len(ks), 2)):
                        pn = rng.choice(ps)
                        it.doc[k] = it.doc[k] + rng.choice([f" uses {pn}", f" ${{{pn}}} and {pn}_x", f" :param {pn}: text"])
                        res.count("doc_lines_naming_a_parameter")
        lay = Layout(rng, comments=rng.choice([0.0, 0.2]), wild=rng.choice([0.0, 0.5, 0.9]), case="random", docforms=rng.choice([0.0, 0.0, 0.3]))
        if mod.module_doc is not None:
            lay_ind = rng.choice(["", "", " ", "  ", "\t", "    "])
        text = render(mod, lay)
        if mod.module_doc is None and rng.random() < 0.08:
            # a first line that, in a Python source file, would declare another encoding: here it is a comment like any other
            text = rng.choice(["# -*- coding: latin-1 -*-\n", "# vim: set fileencoding=cp1252 :\n", "# source transcoding: latin-1 input\n",
                               "#!/usr/bin/cmake -P\n# coding=iso-8859-15\n"]) + text
            res.count("files_with_a_python_style_coding_comment")
        if big:
            res.count("large_module_bytes", len(text.encode("utf-8")))
        if mod.module_doc is not None and lay_ind:
            # re-indent the module doccomment block uniformly (it is the first block of the file)
            end = text.index("#]]\n") + 4
            blk = "".join(lay_ind + l + "\n" for l in text[:end].split("\n")[:-1])
            text = blk + text[end:]
            res.see("module_doc_indent", repr(lay_ind))
        exp = expected_entries(mod)
        n_lines = sum(1 for it in mod.walk() if it.doc and it.kind != "dangling" for _ in it.doc)
        res.sig = sig_hash([mod.shape(), classes[:50]])
        res.nontrivial = n_lines >= 3
        for c in classes:
            res.see("line_classes", c)
        res.count("nonascii_lines", classes.count("nonascii"))
        wit = {"text": text}
        o, doc = runner.document_text(text, runner.make_settings(input=st_in), title="T", module="modN0Z")
        if not o.ok:
            res.violate(o.crash_class() or f"exit:{o.exit_code}", f"{type(o.exc).__name__}: {str(o.exc)[:300]}", wit)
            return res
        rst = o.value
        wit["rst"] = rst
        nv = len(res.violations)
        self.check_page(res, mod, exp, rst, doc_impls)
        # sample through the real command line with -o, file read back as UTF-8
        if idx % 150 == 0:
            with runner.sandbox() as sb:
                src = os.path.join(sb, "in.cmake")
                with open(src, "w", encoding="utf-8", newline="") as f:
                    f.write(text)
                rc, so, se = runner.run_cli([src, "-o", os.path.join(sb, "out")], cwd=sb, home=sb,
                                            env_extra={"LC_ALL": "C.UTF-8", "LANG": "C.UTF-8"})
                res.count("cli_runs")
                outp = os.path.join(sb, "out", "in.rst")
                if rc != 0 or not os.path.exists(outp):
                    res.violate("cli-failed", f"exit {rc}: {se[-300:]}", wit)
                else:
                    with open(outp, encoding="utf-8", newline="") as f:
                        rst2 = f.read()
                    body1 = rst.split(".. module::", 1)[-1].split("\n", 1)[-1]
                    body2 = rst2.split(".. module::", 1)[-1].split("\n", 1)[-1]
                    if body1 != body2:
                        res.violate("cli-differs-from-api", "page written by `cminx -o` differs from Documenter.process()",
                                    {"api": rst, "cli": rst2})
        for v in res.violations[nv:]:
            if v["witness"] is None or "text" not in v["witness"]:
                v["witness"] = dict(wit, block=(v["witness"] or {}).get("block"))
        if idx % 100 == 0:
            res.sample = {"text": text[:1200], "rst": rst[:1200]}
        return res

    def check_page(self, res, mod, exp, rst, doc_impls=()):
        # notes/warnings are not treated as containers here: an indented first doc line directly after one
        # is still text of the entry, which is all C01 speaks about
        page = rstscan.Page(rst, rstscan.ENTRY_ONLY)
        obs = oracle.observed_top(page)
        by_uid = {}
        for k, u, n in obs:
            if u is not None and u not in by_uid:
                by_uid[u] = n
        expected_ids = set()

        def ledger(e, node, depth):
            for t in e.doc:
                m = LINE_ID.search(t)
                if m:
                    expected_ids.add((int(m.group(1)), int(m.group(2))))
            res.count("docs_checked")
            res.count("doc_lines_expected", len(e.doc))
            if oracle.doc_ledger(res, e, node, "entry" if depth == 0 else "member", depth):
                res.count("doc_lines_verified", len(e.doc))
            res.see("kinds_with_doc", e.kind + (":doc" if e.doc else ":nodoc"))
        for e in exp:
            n = by_uid.get(e.uid)
            if n is None:
                res.violate(f"entry-missing:{e.kind}", f"no entry for '{e.name}'", None)
                continue
            ledger(e, n, 0)
            if e.kind == "class":
                subs = {c.uid(): c for c in n.children if c.uid() is not None}
                for m_ in e.attrs + e.methods + e.ctors:
                    c = subs.get(m_.uid)
                    if c is None:
                        res.violate(f"entry-missing:{m_.kind}", f"no member entry for '{m_.name}'", None)
                        continue
                    ledger(m_, c, 1)
        # documented implementing definitions: an entry named after the definition carries the text
        for im in doc_impls:
            cands = [n for n in page.entries() if n.name == "function" and n.arg.startswith(im.gt["name"] + "(")]
            res.count("documented_implementations_checked")
            if len(cands) != 1:
                res.violate("doc-of-implementing-definition-lost", f"{len(cands)} entries for documented definition "
                            f"{im.gt['name']!r} (its doccomment has {len(im.doc)} lines)", None)
                continue
            ie = Entry("function", im, im.gt["name"])
            ledger(ie, cands[0], 0)
        # module doc
        if mod.module_doc is not None:
            mods = page.modules()
            if len(mods) != 1:
                res.violate("module-directive-count", f"{len(mods)}", None)
            else:
                me = Entry("module", None, mod.module_name)
                me.doc = mod.module_doc
                ledger(me, mods[0], 0)
        # global: every id at most once, and only expected ones
        seen = {}
        for l in page.lines:
            for m in LINE_ID.finditer(l):
                key = (int(m.group(1)), int(m.group(2)))
                seen[key] = seen.get(key, 0) + 1
        for key, c in seen.items():
            if key not in expected_ids:
                res.violate("doc-line-of-undocumenting-source", f"line id {key} (dangling or unattached doccomment) "
                            f"appears in the output", None)
            elif c > 1:
                res.violate("doc-line-duplicated-globally", f"line id {key} appears {c} times", None)
        for key in expected_ids:
            if key not in seen:
                res.violate("doc-line-missing-globally", f"line id {key} nowhere in the output", None)

    def check_observed(self, merged, tier):
        out = []
        o = merged["obs"]
        if o.get("doc_lines_verified", 0) < 1000:
            out.append("fewer than 1000 doc lines verified")
        need = {"plain", "prefix", "spaces", "tab", "punct", "nonascii", "empty", "suffix", "long"}
        if need - set(merged["sets"].get("line_classes", [])):
            out.append("line classes not all generated")
        if o.get("cli_runs", 0) < 1:
            out.append("no CLI sample run")
        return out
