"""C13 — directory mode writes exactly one page per processed CMake file (reference walk + audit log + snapshot)."""
import os

from ..core import BaseProp, CaseResult, sig_hash
from .. import runner, fsrun, gitmatch
from ..treegen import gen_tree, reference_walk, expected_outputs, Tree, cmake_text, small_trees


class Prop(BaseProp):
    ID = "C13"
    ANCHORS = ['cminx:document', 'cminx:document_single_file', 'cminx.rstwriter:RSTWriter.write_to_file']
    LEVEL = "exploration"
    RULE = ("random directory trees (depth<=4, empty directories, directories with only non-CMake files incl. a file "
            "literally named 'cmake', mixed-case extensions beside a lower-case one, dotted/dashed names) x recursive "
            "on/off x auto-exclusion on/off x prefix x output location (absolute, relative, nested inside the input "
            "tree) x injected directory-listing order; real cminx.main in-process; observed file set (snapshot AND "
            "audit-hook write log) must equal the reference walk, sampled pages must equal the single-file page. "
            "plus EVERY tree with <=5 (quick) / <=7 (thorough) nodes over a fixed alphabet x recursive x auto-exclusion "
            "(exhaustive). Distinct = tree shape + options; non-trivial = tree with >=1 subdirectory and >=2 CMake files")
    ASSUMPTIONS = ["carve-outs of the quantifier respected (top directory holds a lower-case .cmake when auto-exclusion "
                   "is on; mixed-case extensions only beside a lower-case one)", "no symlinks",
                   "file stems distinct case-insensitively and never 'index'"]
    HEADLINE = ["runs", "pages_expected", "pages_found", "index_expected", "single_file_comparisons", "audit_write_events",
                "listings_permuted"]

    NR = {"quick": 1500, "thorough": 20000}
    SMALL = {"quick": 5, "thorough": 7}

    def small(self):
        if not hasattr(self, "_small"):
            self._small = small_trees(self.SMALL[self.tier])
        return self._small

    def n_cases(self, tier):
        self.tier = tier
        return self.NR[tier] + 4 * len(self.small())

    def setup_worker(self):
        runner.cminx()

    def run_case(self, idx, rng):
        res = CaseResult()
        if idx >= self.NR[self.tier]:
            # exhaustive block: every small tree x recursive x auto-exclusion
            j = idx - self.NR[self.tier]
            tree = self.small()[j // 4]
            recursive, auto = bool(j % 4 // 2), bool(j % 2)
            res.see("mode", "small-tree-enumeration")
            res.count("enumerated_small_tree_runs")
        else:
            # (one tree in four has sub-directories that are symbolic links to other directories of the tree; they are
            #  directories of the input only if input.follow_symlinks is on)
            tree = gen_tree(rng, max_depth=rng.choice([1, 2, 3, 4]), case_twins=rng.random() < 0.3, index_module=rng.random() < 0.1, symlinks=rng.random() < 0.3,
                            dirlinks=rng.random() < 0.25, follow=rng.random() < 0.5,
                            deep_chain=rng.choice([0] * 30 + [18, 34, 40]), many_files=rng.choice([0] * 30 + [20, 40, 300]))
            recursive = rng.random() < 0.7
            auto = rng.random() < 0.6
        if idx < self.NR[self.tier] and rng.random() < 0.35:
            # every file starts with a definition without doccomment and ends with a declaration that is still waiting for its
            # definition when the file ends (a test declared without body, a pure virtual member): whatever one file leaves
            # behind, the next file's page is the page of that file on its own
            k_ = 0
            for f_ in sorted(tree.files):
                if f_.lower().endswith(".cmake") and tree.files[f_] and f_ not in tree.virtual:
                    k_ += 1
                    tail = rng.choice(["ct_add_test(NAME pending_t%d)\n" % k_,
                                       "cpp_class(Pend%d)\n  cpp_member(pure_m Pend%d int)\n  cpp_virtual_member(pure_m)\n" % (k_, k_),
                                       "cpp_class(Pend%d)\n  cpp_constructor(CTOR Pend%d str)\n" % (k_, k_), ""])
                    new_t = "function(lead_fn_%d a b)\nendfunction()\n" % k_ + tree.files[f_] + tail
                    for v_, t_ in list(tree.files.items()):
                        if t_ is tree.files[f_] and v_ != f_ and v_ in tree.virtual:
                            tree.files[v_] = new_t      # the same file seen through a followed directory link
                    tree.files[f_] = new_t
            res.count("trees_whose_files_end_with_a_waiting_declaration")
        prefix = rng.choice([None, None, "Pfx", "my.pkg"])
        outmode = rng.choice(["abs", "rel", "nested", "abs"])
        order_mode = rng.choice(fsrun.ORDER_MODES[:4])
        res.sig = sig_hash([tree.shape(), recursive, auto, prefix is not None, outmode])
        ncm = sum(1 for f in tree.files if f.lower().endswith(".cmake"))
        res.nontrivial = len(tree.dirs) >= 2 and ncm >= 2
        res.see("options", f"r={int(recursive)} auto={int(auto)} out={outmode}")
        res.see("order_modes", order_mode)
        with runner.sandbox() as sb:
            # (the directory above the input may carry characters that are special in glob patterns: a path is a path)
            wname = rng.choice(["work", "work", "work", "work[v2]", "wo*k", "w?rk", "work{a,b}",
                                os.path.join(*(["deep"] + [f"p{k}" for k in range(36)]))])        # (... or sit 37 directories further down)
            res.see("input_parent_directory_names", wname if len(wname) < 20 else "<37 directories deep>")
            inp = os.path.join(sb, wname, "proj")
            if outmode == "nested" and idx < self.NR[self.tier] and rng.random() < 0.5:
                # sibling of the (nested) output directory whose name merely starts with the output directory's name
                for extra in ("docs_out-internal", "docs_outer"):
                    tree.dirs.add(extra)
                    tree.files[os.path.join(extra, "inside.cmake")] = cmake_text(os.path.join(extra, "inside.cmake"))
                res.count("output_dir_is_prefix_of_sibling_runs")
            tree.write(inp)
            cwd = os.path.join(sb, wname)
            home = os.path.join(sb, "home")
            os.makedirs(home)
            out_abs = {"abs": os.path.join(sb, "out", "docs"), "rel": os.path.join(cwd, "build", "docs"),
                       "nested": os.path.join(inp, "docs_out")}[outmode]
            out_arg = out_abs if outmode == "abs" else os.path.relpath(out_abs, cwd)
            argv = [rng.choice([inp, "proj", "proj/", "./proj"]), "-o", out_arg]
            if recursive:
                argv.append("-r")
            if prefix:
                argv += ["-p", prefix]
            inset = {}
            if not auto:
                inset["auto_exclude_directories_without_cmake"] = False
            if tree.dirlinks:
                res.count("runs_with_directory_symlinks")
                res.see("directory_symlinks", "followed" if tree.follow else "not followed")
                if tree.follow or rng.random() < 0.3:
                    inset["follow_symlinks"] = tree.follow
            if inset:
                cfg = os.path.join(sb, "cfg", "s.yaml")
                fsrun.write_yaml(cfg, {"input": inset})
                argv += ["-s", cfg]
            spec = gitmatch.Spec([])
            ref = reference_walk(tree, inp, recursive, auto, spec)
            want = expected_outputs(ref)
            fr = fsrun.run_monitored(sb, argv, cwd, home, order=fsrun.make_order(rng, order_mode))
            res.count("runs")
            res.count("listings_permuted", len(fr.scandir_log))
            wit = {"argv": argv, "tree_dirs": sorted(tree.dirs), "tree_files": sorted(tree.files), "order": order_mode}
            o = fr.outcome
            if not o.ok:
                cls = o.crash_class() or f"exit:{o.exit_code}"
                if any(os.path.basename(f) == "cmake" for f in tree.files):
                    cls += ":tree-has-file-named-cmake"
                res.violate(cls, f"{type(o.exc).__name__ if o.exc else 'SystemExit'}: {str(o.exc)[:200]}", wit)
                return res
            got = fsrun.files_under(out_abs) if os.path.isdir(out_abs) else set()
            res.count("pages_expected", len(ref.pages))
            res.count("index_expected", len(ref.processed_dirs))
            res.count("pages_found", len([g for g in got if not g.endswith("index.rst")]))
            wit.update(expected=sorted(want), got=sorted(got))
            for m in sorted(want - got):
                res.violate("missing-index" if m.endswith("index.rst") else "missing-page", f"{m} not written", wit)
            for e in sorted(got - want):
                cls = "extra-index" if e.endswith("index.rst") else "extra-file"
                if os.path.basename(e) == ".rst" or os.path.basename(e) == "cmake.rst":
                    cls += ":from-file-named-cmake"
                res.violate(cls, f"{e} written but not expected", wit)
            gd = fsrun.dirs_under(out_abs) if os.path.isdir(out_abs) else set()
            wd = {os.path.dirname(w) for w in want if os.path.dirname(w)}
            wd = {os.path.normpath(p) for d in wd for p in [d] + [d.rsplit(os.sep, k)[0] for k in range(1, d.count(os.sep) + 1)]}
            for e in sorted(gd - wd):
                res.violate("extra-directory", f"{e} created but holds no expected file", wit)
            # audit log must tell the same story
            writes = {os.path.normpath(os.path.relpath(p, out_abs)) for ev, p, _ in fr.audit
                      if ev == "open-write" and (p + os.sep).startswith(out_abs + os.sep)}
            res.count("audit_write_events", sum(1 for ev, _, _ in fr.audit if ev == "open-write"))
            if writes - got:
                # opened for writing inside the output directory, gone afterwards: something was written and removed again
                res.violate("audit-log-vs-snapshot", f"written per audit hook but not present afterwards: {sorted(writes - got)}", wit)
            elif got - writes:
                # files that this process never opened (e.g. written by a child process): the two monitors disagree about
                # HOW the files got there, the snapshot remains the authority on WHAT is there -- counted, not a violation
                res.count("runs_where_the_audit_hook_missed_writes")
            # page == single-file page (sample)
            pages = sorted(ref.pages)
            for p in rng.sample(pages, min(2, len(pages))):
                rstp = os.path.join(out_abs, os.path.dirname(p), ".".join(os.path.basename(p).split(".")[:-1]) + ".rst")
                if not os.path.exists(rstp):
                    continue
                single_out = os.path.join(sb, "single")
                argv1 = [os.path.join(inp, p), "-o", single_out]
                if not auto:
                    argv1 += ["-s", cfg]
                o1 = runner.run_main(argv1, cwd=cwd, home=home)
                res.count("single_file_comparisons")
                sp = os.path.join(single_out, ".".join(os.path.basename(p).split(".")[:-1]) + ".rst")
                if not o1.ok or not os.path.exists(sp):
                    res.violate("single-file-run-failed", f"{p}: {o1.crash_class()}", wit)
                    continue
                a = fsrun.body_after_module_line(open(rstp, encoding="utf-8").read())
                bb = fsrun.body_after_module_line(open(sp, encoding="utf-8").read())
                if a is None or a != bb:
                    res.violate("page-differs-from-single-file-run", p, dict(wit, dir_page=a, single_page=bb))
            # observer faithfulness: the same invocation through the real command line in a fresh interpreter
            if idx % 120 == 0 and outmode != "nested":
                import shutil
                shutil.rmtree(out_abs, ignore_errors=True)
                rc, so, se = runner.run_cli(argv, cwd=cwd, home=home)
                res.count("real_cli_runs")
                got2 = fsrun.files_under(out_abs) if os.path.isdir(out_abs) else set()
                if rc != 0 or got2 != got:
                    res.violate("in-process-run-differs-from-real-cli", f"exit {rc}; files only in-process {sorted(got - got2)[:3]}, "
                                f"only CLI {sorted(got2 - got)[:3]}", wit)
            if idx % 40 == 0:
                res.sample = {"argv": argv, "tree_files": sorted(tree.files)[:15], "expected_outputs": sorted(want)[:15]}
        return res

    def extra_coverage(self, merged, tier):
        return {"exhaustive": True, "exhaustive_dimension": f"all {len(self.small())} directory trees with <= {self.SMALL[tier]} nodes "
                "(lower-case/mixed-case CMake file, non-CMake file, <=2 sub-directories per directory, depth <=3) x recursive x auto-exclusion"}

    def check_observed(self, merged, tier):
        o = merged["obs"]
        if o.get("enumerated_small_tree_runs", 0) != 4 * len(self.small()):
            return ["small-tree enumeration incomplete"]
        out = [f"{k} < 50" for k in ("runs", "pages_expected", "single_file_comparisons", "audit_write_events",
                                     "listings_permuted") if o.get(k, 0) < 50]
        return out
