"""C17 — output is a function of contents, relative paths and settings only (metamorphic over histories)."""
import os
import shutil

from ..core import BaseProp, CaseResult, sig_hash
from .. import runner, fsrun
from ..treegen import gen_tree, cmake_text
from ..modgen import Layout, render
from ..genmod import Builder


def read_tree(root):
    out = {}
    for d, _, fs in os.walk(root):
        for f in fs:
            p = os.path.join(d, f)
            with open(p, "rb") as fh:
                out[os.path.relpath(p, root)] = fh.read()
    return out


class Prop(BaseProp):
    ID = "C17"
    ANCHORS = ['cminx:document', 'cminx:document_single_file', 'cminx.documentation_types:FunctionDocumentation.process']
    LEVEL = "exploration"
    RULE = ("trees and single files with generated module contents; reference = fresh-interpreter CLI run; variants: "
            "repeat in a fresh interpreter, PYTHONHASHSEED in {1,4242,random}, other working directory (absolute and "
            "relative input path), whole input moved to another absolute location, input reached through a symbolic link of the same name, recursive and non-recursive runs incl. trees without a CMake file at the top, injected directory-listing "
            "permutations, histories (other inputs documented before/after in the same process; one invocation "
            "documenting extra files before and after), tree plus extra files. Every generated file must be "
            "byte-identical to the reference (index pages exempt only in the 'extra files' variant). Distinct = tree "
            "shape + settings; non-trivial = >=2 pages and >=5 variants compared")
    ASSUMPTIONS = ["collision-free by construction: distinct stems, one directory input per invocation, no 'index' stem, "
                   "output outside the input tree", "same base name of the input directory when it is moved"]
    HEADLINE = ["reference_runs", "variants_compared", "files_compared", "fresh_interpreter_runs", "history_runs",
                "listing_permutations"]

    def n_cases(self, tier):
        return 96 if tier == "quick" else 900

    def setup_worker(self):
        runner.cminx()

    def contents(self, rng, rel):
        b = Builder(rng, p_doc=0.6, max_depth=2, max_items=4, allow_dangling=False)
        t = render(b.module(), Layout(rng, comments=0.1, wild=0.1))
        if rng.random() < 0.5:
            # text outside ASCII in doccomments, values and names
            t += "#[[[\n# Grüße ✓ 日本語 – naïve café\n#]]\nfunction(uni_fn_ü a)\nendfunction()\n#[[[\n# ünï\n#]]\nset(UNI \"wert ✓\")\n"
        return t

    def run_case(self, idx, rng):
        res = CaseResult()
        single = idx % 4 == 3
        prefix = rng.choice([None, None, "Pfx", "Überblick ✓"])     # (the non-ASCII one is given through the settings file)
        recursive = rng.random() < 0.75
        topless = (not single) and rng.random() < 0.25     # the input directory itself holds no CMake file
        with runner.sandbox() as sb:
            home = os.path.join(sb, "home")
            os.makedirs(os.path.join(home, ".config", "cminx"))
            tree = gen_tree(rng, max_depth=rng.choice([1, 2, 3]), p_sub=0.9, noncmake=False, mixed_case=False, case_twins=True,
                            many_files=rng.choice([0] * 10 + [15, 16, 31, 32, 40]) if not single else 0,
                            deep_chain=rng.choice([0] * 12 + [17, 33]) if not single else 0)
            for f in list(tree.files):
                tree.files[f] = self.contents(rng, f)
            if topless:
                for f in tree.files_of(""):
                    del tree.files[f]
                if not tree.files:
                    tree.dirs.add("only_sub")
                    tree.files["only_sub/o.cmake"] = self.contents(rng, "o")
                tree.files["notes.txt"] = "no CMake file at the top\n"
                res.count("trees_without_cmake_file_at_the_top")
            loc1 = os.path.join(sb, "loc1", "proj")
            tree.write(loc1)
            cfg = os.path.join(sb, "cfg", "s.yaml")
            inset = {"include_undocumented_function": rng.random() < 0.8, "kwargs_doc_trigger_string": ":keyword"}
            tops = [d for d in tree.subdirs("")]
            if not single and tops and rng.random() < 0.3:
                # a followed symbolic link that is an alias of a sibling directory: both routes are documented, whichever is
                # listed first
                os.symlink(rng.choice(tops), os.path.join(loc1, rng.choice(["zz_alias", "aa_alias", "Compat"])))
                inset["follow_symlinks"] = True
                res.count("trees_with_followed_directory_alias")
            if rng.random() < 0.4:
                # non-empty parameter strip patterns (anything computed per parameter list must not be shared between files)
                inset["function_parameter_name_strip_regex"] = rng.choice(["^_", "_in$", "^p"])
                inset["macro_parameter_name_strip_regex"] = rng.choice(["^_", "_in$", "^p"])
                res.count("runs_with_strip_patterns")
            rstset = {"file_extensions_in_titles": rng.random() < 0.3}
            prefix_in_file = bool(prefix) and not prefix.isascii()
            if prefix_in_file:
                rstset["prefix"] = prefix
            fsrun.write_yaml(cfg, {"input": inset, "rst": rstset})
            common = ["-s", cfg] + (["-p", prefix] if prefix and not prefix_in_file else [])
            # exclude patterns (same in every variant): a glob matching several siblings, a bare name, and filters with an
            # inner slash that are anchored and therefore never match an absolute path, whatever the working directory is
            if rng.random() < 0.6:
                pool = ["e*.cmake", "*_last.cmake", "a*", rng.choice(sorted(os.path.basename(f) for f in tree.files)),
                        "proj/sub/", "proj/a.cmake", "loc1/proj/", "sub/e1.cmake", "./proj"]
                for pat in rng.sample(pool, rng.randint(1, 3)):
                    common += ["-e", pat]
                cands = sorted(os.path.basename(f) for f in tree.files if os.path.splitext(os.path.basename(f))[1] and os.path.splitext(os.path.basename(f))[0])
                if cands and rng.random() < 0.4:
                    # an overlapping pair whose order matters: a glob over file names, then the negation of one file it matches
                    # (gitignore semantics: the later pattern wins) - the order given on the command line is the order applied.
                    # (The glob ends in the file's extension: CMinx matches absolute paths, and a bare 'x*' would also match
                    # components of the location the tree happens to stand in, which differs between the variants.)
                    b_ = rng.choice(cands)
                    pair = [b_[0] + "*" + os.path.splitext(b_)[1], "!" + b_]
                    if rng.random() < 0.3:
                        pair.reverse()
                    for pat in pair:
                        common += ["-e", pat]
                    res.count("runs_with_an_order_sensitive_pattern_pair")
                res.count("runs_with_exclude_patterns")
            if not single and not topless and rng.random() < 0.2:
                if rng.random() < 0.6:
                    recursive = False
                # every CMake file of the input directory itself is excluded by a pattern (absolute paths: files of the same
                # name further down stay in)
                for f_ in tree.files_of(""):
                    if f_.lower().endswith(".cmake"):
                        common += ["-e", "**/proj/" + f_]
                res.count("runs_whose_top_level_files_are_all_excluded")
            if single:
                if rng.random() < 0.3:
                    tree.files[".cmake"] = self.contents(rng, ".cmake")        # empty stem
                    with open(os.path.join(loc1, ".cmake"), "w") as fh:
                        fh.write(tree.files[".cmake"])
                    rel_in = ".cmake"
                    res.count("single_file_with_empty_stem")
                else:
                    rel_in = rng.choice(sorted(tree.files))
                rel_in_fixed = rel_in
                target = lambda root: os.path.join(root, rel_in_fixed)    # noqa: E731
                flags = common
            else:
                target = lambda root: root                                # noqa: E731
                flags = common + (["-r"] if recursive else [])
                res.see("directory_modes", ("recursive" if recursive else "non-recursive") + ("+no-cmake-at-top" if topless else ""))
            res.sig = sig_hash([tree.shape(), single, prefix, recursive])
            wit = {"single": single, "flags": flags, "tree_files": sorted(tree.files)}
            nvar = [0]

            def out_dir(name):
                return os.path.join(sb, "outs", name)

            def compare(name, got, ref, only=None):
                nvar[0] += 1
                res.count("variants_compared")
                res.see("variants", name.split("#")[0])
                keys = only if only is not None else set(ref) | set(got)
                for k in sorted(keys):
                    res.count("files_compared")
                    if ref.get(k) != got.get(k):
                        what = "missing" if k not in got else "extra" if k not in ref else "differs"
                        w = dict(wit, variant=name, file=k, ref=(ref.get(k) or b"")[:1500].decode("utf-8", "replace"),
                                 got=(got.get(k) or b"")[:1500].decode("utf-8", "replace"))
                        res.violate(f"output-depends-on:{name.split('#')[0]}:{what}", f"{k} {what} in variant {name}", w)
                        break

            # reference: fresh interpreter, hash seed 0, cwd = sb
            rc, so, se = runner.run_cli([target(loc1), "-o", out_dir("ref")] + flags, cwd=sb, home=home,
                                        env_extra={"PYTHONHASHSEED": "0"})
            res.count("reference_runs")
            res.count("fresh_interpreter_runs")
            if rc != 0:
                res.violate("reference-run-failed", se[-300:], wit)
                return res
            ref = read_tree(out_dir("ref"))
            res.nontrivial = len([k for k in ref if not k.endswith("index.rst")]) >= 2 or (topless and not recursive)
            # (a)+(e) fresh interpreters with other hash seeds, other cwd, relative input path
            for hs in (["1", "random"] if self.tier == "quick" else ["0", "1", "4242", "random"]):
                cwd = rng.choice([sb, os.path.join(sb, "loc1"), home])
                arg = rng.choice([target(loc1), os.path.relpath(target(loc1), cwd)])
                name = f"hashseed#{hs}"
                rc, so, se = runner.run_cli([arg, "-o", out_dir(name)] + flags, cwd=cwd, home=home,
                                            env_extra={"PYTHONHASHSEED": hs})
                res.count("fresh_interpreter_runs")
                if rc != 0:
                    res.violate("variant-run-failed:hashseed", se[-300:], wit)
                else:
                    compare(name, read_tree(out_dir(name)), ref)
            # (a2) another process locale: an ASCII locale with Python's UTF-8 mode switched off. What is written is decided by
            #      the contents, not by the encoding the environment prefers. (Only for trees whose NAMES are ASCII: under
            #      such a locale other names cannot even be decoded from the directory listing.)
            if all(ord(ch) < 128 for f_ in list(tree.files) + list(tree.dirs) for ch in f_):
                name = "process-locale#ascii"
                rc, so, se = runner.run_cli([target(loc1), "-o", out_dir(name)] + flags, cwd=sb, home=home,
                                            env_extra={"PYTHONHASHSEED": "0", "LC_ALL": "C", "LANG": "C", "PYTHONUTF8": "0",
                                                       "PYTHONCOERCECLOCALE": "0"})
                res.count("fresh_interpreter_runs")
                if any(ord(ch) > 127 for t_ in tree.files.values() for ch in t_):
                    res.count("ascii_locale_runs_over_non_ascii_contents")
                if rc != 0:
                    res.violate("variant-run-failed:process-locale", se[-400:], wit)
                else:
                    compare(name, read_tree(out_dir(name)), ref)
            # (b0) run from inside the input directory with the input spelled '.'
            if not single:
                o = runner.run_main(["."] + ["-o", out_dir("dot")] + flags, cwd=loc1, home=home)
                if o.ok:
                    compare("cwd-inside-input-spelled-dot", read_tree(out_dir("dot")), ref)
                else:
                    res.violate("variant-run-failed:dot", str(o.exc)[:200], wit)
            # (b) in-process, other cwd
            cwd = os.path.join(sb, "loc1")
            o = runner.run_main([os.path.relpath(target(loc1), cwd), "-o", out_dir("cwd")] + flags, cwd=cwd, home=home)
            if o.ok:
                compare("cwd", read_tree(out_dir("cwd")), ref)
            else:
                res.violate("variant-run-failed:cwd", str(o.exc)[:200], wit)
            # (c) moved to another absolute location with the same base name
            # (no component that a generated pattern could match; components named like the directories build systems and
            #  package managers create: where the tree is checked out is no input of the run)
            loc2 = os.path.join(sb, "Q_moved", "build", "_deps", "x-src", "CMakeFiles", "node_modules", ".cache", "vendor",
                                "Q1", "Q2", "Q3", "Q4", "Q5", "Q6", "Q7", "Q8", "Q9", "Q10", "proj")       # (and 20+ directories deep)
            shutil.copytree(loc1, loc2)
            o = runner.run_main([target(loc2), "-o", out_dir("moved")] + flags, cwd=home, home=home)
            if o.ok:
                compare("moved", read_tree(out_dir("moved")), ref)
            else:
                res.violate("variant-run-failed:moved", str(o.exc)[:200], wit)
            # (c2) the input is reached through a symbolic link whose name is the input's name: the same contents at the same
            #      relative paths below an input path with the same name
            store = os.path.join(sb, "Q_store", "Q_checkout_0042")
            shutil.copytree(loc1, store)
            os.makedirs(os.path.join(sb, "Q_site"))
            if single:
                d5 = os.path.join(sb, "Q_site", os.path.dirname(rel_in_fixed))
                os.makedirs(d5, exist_ok=True)
                link_in = os.path.join(d5, os.path.basename(rel_in_fixed))
                blob = os.path.join(sb, "Q_store", "Q_blob_77.cmake")
                shutil.copy(target(loc1), blob)
                os.symlink(blob, link_in)
            else:
                link_in = os.path.join(sb, "Q_site", "proj")
                os.symlink(store, link_in)
            o = runner.run_main([link_in, "-o", out_dir("linked")] + flags, cwd=home, home=home)
            if o.ok:
                compare("input-reached-through-symlink", read_tree(out_dir("linked")), ref)
            else:
                res.violate("variant-run-failed:linked", str(o.exc)[:200], wit)
            # (d) listing permutations
            for k in range(2 if self.tier == "quick" else 4):
                name = f"listing-order#{k}"
                fr = fsrun.run_monitored(sb, [target(loc1), "-o", out_dir(name)] + flags, sb, home,
                                         order=fsrun.make_order(rng, rng.choice(["reversed", "shuffle", "shuffle"])))
                res.count("listing_permutations", len(fr.scandir_log))
                if fr.outcome.ok:
                    compare(name, read_tree(out_dir(name)), ref)
                else:
                    res.violate("variant-run-failed:listing", str(fr.outcome.exc)[:200], wit)
            # (f) histories: other inputs before and after, same process; and one invocation with extra inputs
            other = os.path.join(sb, "other")
            os.makedirs(other)
            extra_files = []
            for nm in ("hist_before_x.cmake", "hist_after_y.cmake"):
                p = os.path.join(other, nm)
                with open(p, "w") as f:
                    f.write(self.contents(rng, nm))
                extra_files.append(p)
            runner.run_main([extra_files[0], "-o", os.path.join(sb, "junk1")] + flags, cwd=sb, home=home)
            o = runner.run_main([target(loc1), "-o", out_dir("after-history")] + flags, cwd=sb, home=home)
            runner.run_main([extra_files[1], "-o", os.path.join(sb, "junk2")] + flags, cwd=sb, home=home)
            res.count("history_runs")
            if o.ok:
                compare("history-same-process", read_tree(out_dir("after-history")), ref)
            else:
                res.violate("variant-run-failed:history", str(o.exc)[:200], wit)
            o = runner.run_main([extra_files[0], target(loc1), extra_files[1], "-o", out_dir("multi")] + flags, cwd=sb, home=home)
            res.count("history_runs")
            if o.ok:
                got = read_tree(out_dir("multi"))
                for nm in ("hist_before_x.rst", "hist_after_y.rst"):
                    if nm not in got:
                        res.violate("multi-input-page-missing", nm, wit)
                    got.pop(nm, None)
                compare("history-one-invocation", got, ref)
                # the extra files alone
                for p, nm in zip(extra_files, ("hist_before_x.rst", "hist_after_y.rst")):
                    runner.run_main([p, "-o", out_dir("alone")] + flags, cwd=sb, home=home)
                alone = read_tree(out_dir("alone"))
                full = read_tree(out_dir("multi"))
                compare("extra-file-alone-vs-in-larger-run", {k: full.get(k) for k in alone}, alone)
            else:
                res.violate("variant-run-failed:multi", str(o.exc)[:200], wit)
            # (f2) one invocation documents the tree and then, as a further lone input, a file that the tree already contains:
            #      the page of the lone input is the page of that file documented alone, the tree's pages are unchanged
            if not single:
                tops = {os.path.basename(k)[:-4] for k in ref if os.sep not in k}
                nested = [f_ for f_ in sorted(tree.files) if os.path.dirname(f_) and f_.endswith(".cmake") and tree.files[f_]
                          and os.path.basename(f_)[:-6] not in tops and os.path.basename(f_)[:-6] not in ("index", "")]
                if nested:
                    f_ = rng.choice(nested)
                    stem_ = os.path.basename(f_)[:-6]
                    o = runner.run_main([loc1, os.path.join(loc1, f_), "-o", out_dir("twice")] + flags, cwd=sb, home=home)
                    # (the file on its own is documented by a fresh interpreter: nothing an earlier run left behind in this
                    #  process can have a say in it)
                    rc1, _, se1 = runner.run_cli([os.path.join(loc1, f_), "-o", out_dir("lone")] + flags, cwd=sb, home=home,
                                                 env_extra={"PYTHONHASHSEED": "0"})
                    res.count("fresh_interpreter_runs")

                    class o1:
                        ok, exc = rc1 == 0, se1[-200:]
                    res.count("history_runs")
                    if o.ok and o1.ok:
                        got = read_tree(out_dir("twice"))
                        lone = read_tree(out_dir("lone"))
                        if lone:          # (nothing is written when a pattern excludes the file)
                            page = got.pop(stem_ + ".rst", None)
                            compare("own-file-again-as-lone-input", {stem_ + ".rst": page}, lone)
                        compare("tree-before-own-file-as-lone-input", got, ref)
                    else:
                        res.violate("variant-run-failed:twice", str((o.exc, o1.exc))[:200], wit)
            # (h) re-run into an existing output directory: an earlier run documented a longer revision of the same files
            #     (and a file that no longer exists is NOT expected to vanish -- only the files of this run are compared)
            loc4 = os.path.join(sb, "fourth", "proj")
            shutil.copytree(loc1, loc4)
            longer = {}
            for f in tree.files:
                longer[f] = tree.files[f] + "#[[[\n# an entry that the next revision no longer has, " + "x" * 300 + "\n#]]\nfunction(gone_later a b c)\nendfunction()\n"
                with open(os.path.join(loc4, f), "w", encoding="utf-8", newline="") as fh:
                    fh.write(longer[f])
            o = runner.run_main([target(loc4), "-o", out_dir("rerun")] + flags, cwd=sb, home=home)
            for f in tree.files:
                with open(os.path.join(loc4, f), "w", encoding="utf-8", newline="") as fh:
                    fh.write(tree.files[f])
                # same or older time stamp than the first output: content, not time, must decide
                if rng.random() < 0.5:
                    os.utime(os.path.join(loc4, f), (1_000_000_000, 1_000_000_000))
            o = runner.run_main([target(loc4), "-o", out_dir("rerun")] + flags, cwd=sb, home=home)
            res.count("history_runs")
            if o.ok:
                compare("rerun-into-existing-output", read_tree(out_dir("rerun")), ref)
            else:
                res.violate("variant-run-failed:rerun", str(o.exc)[:200], wit)
            # (h1b) the same run repeated by a NEW process into the output directory the reference run just filled: nothing that
            #       is there stays, nothing goes
            if idx % 3 == 1 and os.path.isdir(out_dir("ref")):
                import shutil as _sh2
                _sh2.copytree(out_dir("ref"), out_dir("refagain"))
                rc, so, se = runner.run_cli([target(loc1), "-o", out_dir("refagain")] + flags, cwd=sb, home=home,
                                            env_extra={"PYTHONHASHSEED": "0"})
                res.count("fresh_interpreter_runs")
                if rc != 0:
                    res.violate("variant-run-failed:rerun-by-a-new-process", se[-300:], wit)
                else:
                    compare("rerun-by-a-new-process-into-the-same-output", read_tree(out_dir("refagain")), ref)
            # (h2) ... or a revision that differed from the present one in white space only (indentation of doccomment
            #      lines, additional empty doccomment lines): the pages on disk afterwards are those of the present contents
            import re as _re
            loc6 = os.path.join(sb, "sixth", "proj")
            shutil.copytree(loc1, loc6)
            changed = 0
            for f in tree.files:
                wsrev = _re.sub(r"(?m)^([ \t]*)# (\S.*)$", lambda m: f"{m.group(1)}#     {m.group(2)}\n{m.group(1)}#", tree.files[f])
                changed += wsrev != tree.files[f]
                with open(os.path.join(loc6, f), "w", encoding="utf-8", newline="") as fh:
                    fh.write(wsrev)
            if changed:
                o = runner.run_main([target(loc6), "-o", out_dir("wsrerun")] + flags, cwd=sb, home=home)
                first = read_tree(out_dir("wsrerun")) if o.ok else {}
                for f in tree.files:
                    with open(os.path.join(loc6, f), "w", encoding="utf-8", newline="") as fh:
                        fh.write(tree.files[f])
                o = runner.run_main([target(loc6), "-o", out_dir("wsrerun")] + flags, cwd=sb, home=home)
                res.count("history_runs")
                if o.ok:
                    if first and first != ref:
                        res.count("whitespace_only_revisions_that_changed_a_page")
                    compare("rerun-after-whitespace-only-revision", read_tree(out_dir("wsrerun")), ref)
                else:
                    res.violate("variant-run-failed:wsrerun", str(o.exc)[:200], wit)
            # (i) the output directory was filled by an earlier run with other settings that give pages of the same length
            #     (a different prefix of equal length): content, not size or age, decides what is on disk afterwards
            eff = prefix if prefix else ("proj" if not single else None)
            if eff:
                other = eff[:-1] + ("q" if eff[-1] != "q" else "z")
                flags_other = [a for a in flags if a not in ("-p", prefix)] + ["-p", other]
                o = runner.run_main([target(loc1), "-o", out_dir("samesize")] + flags_other, cwd=sb, home=home)
                flags_now = flags if prefix else flags + ["-p", eff]
                o = runner.run_main([target(loc1), "-o", out_dir("samesize")] + flags_now, cwd=sb, home=home)
                res.count("history_runs")
                if o.ok:
                    compare("rerun-after-same-length-output", read_tree(out_dir("samesize")), ref)
                else:
                    res.violate("variant-run-failed:samesize", str(o.exc)[:200], wit)
            # (g) tree plus extra files: pages of the original files unchanged
            if not single:
                loc3 = os.path.join(sb, "third", "proj")
                shutil.copytree(loc1, loc3)
                with open(os.path.join(loc3, "zzz_extra_file.cmake"), "w") as f:
                    f.write(self.contents(rng, "zzz"))
                os.makedirs(os.path.join(loc3, "zzz_extra_dir"))
                with open(os.path.join(loc3, "zzz_extra_dir", "inner.cmake"), "w") as f:
                    f.write(self.contents(rng, "inner"))
                o = runner.run_main([loc3, "-o", out_dir("superset")] + flags, cwd=sb, home=home)
                if o.ok:
                    got = read_tree(out_dir("superset"))
                    pages = {k for k in ref if not k.endswith("index.rst")}
                    compare("superset-tree", got, ref, only=pages)
                else:
                    res.violate("variant-run-failed:superset", str(o.exc)[:200], wit)
            res.nontrivial = res.nontrivial and nvar[0] >= 5
            if idx % 16 == 0:
                res.sample = {"flags": flags, "single": single, "tree_files": sorted(tree.files)[:10], "reference_files": sorted(ref)[:10],
                              "variants": nvar[0]}
        return res

    def check_observed(self, merged, tier):
        o = merged["obs"]
        return [f"{k} < 30" for k in self.HEADLINE if o.get(k, 0) < 30]
