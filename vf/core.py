"""Driver: schedules the cases of one property over worker processes, merges what the
monitors observed, writes the evidence file and decides the three-valued verdict.

A case is fully determined by (property id, VERIF_SEED, tier, case index)."""
import hashlib
import importlib
import json
import os
import random
import subprocess
import sys
import tempfile
import time
import traceback

VERIF = os.path.dirname(os.path.dirname(os.path.abspath(__file__)))
PY = "/venv/bin/python"
GUARD = "CMINX_VERIF"

EXIT_HELD, EXIT_VIOLATION, EXIT_INCONCLUSIVE = 0, 1, 2


def repo_root():
    return os.path.realpath(os.environ.get("CMINX_VERIF_REPO", "/repo"))


def load_prop(pid):
    mod = importlib.import_module("vf.props." + pid.lower())
    return mod.Prop()


def case_rng(pid, seed, tier, idx):
    return random.Random(f"{pid}:{seed}:{tier}:{idx}")


def sig_hash(obj):
    return hashlib.sha1(json.dumps(obj, sort_keys=True, default=str).encode()).hexdigest()[:16]


class CaseResult:
    """What one execution produced for the merge step."""

    def __init__(self):
        self.sig = None            # structural signature (ids/literals erased); None = not counted
        self.nontrivial = False
        self.violations = []       # list of dict(cls=..., detail=..., witness=...)
        self.obs = {}              # counters: name -> int
        self.sets = {}             # name -> set of small strings (distinct things seen)
        self.sample = None
        self.skipped = None        # reason string if the case was discarded

    def count(self, key, n=1):
        self.obs[key] = self.obs.get(key, 0) + n

    def see(self, key, value):
        self.sets.setdefault(key, set()).add(str(value))

    def violate(self, cls, detail, witness=None):
        self.violations.append({"cls": cls, "detail": detail, "witness": witness})


# ----------------------------------------------------------------------------- worker

def worker_main(pid, tier, seed, w, nw, outpath, only=None):
    os.environ[GUARD] = "1"
    t0 = time.time()
    report = {"cases": 0, "nontrivial_sigs": [], "all_sigs": 0, "violations": [], "obs": {},
              "sets": {}, "samples": [], "skipped": {}, "harness_errors": [], "wall": 0.0}
    try:
        prop = load_prop(pid)
        prop.tier, prop.seed = tier, seed
        prop.setup_worker()
        reach = None
        if getattr(prop, "ANCHORS", None):
            from .reach import Reach
            from . import runner as _r
            _r.cminx()
            reach = Reach()
            reach.start(prop.ANCHORS)
        n = prop.n_cases(tier)
        idxs = [only] if only is not None else range(w, n, nw)
        sigs = set()
        seen_cls = {}
        for i in idxs:
            rng = case_rng(pid, seed, tier, i)
            try:
                _set_pipeline(prop, i)
                res = prop.run_case(i, rng)
            except Exception:
                report["harness_errors"].append({"index": i, "tb": traceback.format_exc()[-3000:]})
                continue
            report["cases"] += 1
            if res.skipped:
                report["skipped"][res.skipped] = report["skipped"].get(res.skipped, 0) + 1
            if res.sig is not None and res.nontrivial:
                sigs.add(res.sig)
            for k, v in res.obs.items():
                report["obs"][k] = report["obs"].get(k, 0) + v
            for k, v in res.sets.items():
                s = report["sets"].setdefault(k, [])
                for x in v:
                    if x not in s and len(s) < 400:
                        s.append(x)
            for v in res.violations:
                v = dict(v)
                v["index"] = i
                # every violation is counted; the full witness is kept for the first two of a class per worker (the driver
                # writes the replay file from the lowest case index of a class, which is some worker's first)
                seen_cls[v["cls"]] = seen_cls.get(v["cls"], 0) + 1
                if seen_cls[v["cls"]] > 2:
                    v["witness"] = None
                    v["detail"] = str(v.get("detail"))[:200]
                report["violations"].append(v)
            if res.sample is not None and len(report["samples"]) < 2:
                report["samples"].append(res.sample)
        report["nontrivial_sigs"] = sorted(sigs)
        report["obs"]["cases_run_by_an_optimised_interpreter" if not __debug__ else "cases_run_by_a_default_interpreter"] = report["cases"]
        if getattr(prop, "PIPELINES", False):
            from . import runner as _r2
            for k_, v_ in _r2.PIPELINE_STATS.items():
                report["obs"]["documents_via:" + k_] = report["obs"].get("documents_via:" + k_, 0) + v_
        extra = prop.worker_extra()
        if extra:
            report["extra"] = extra
        if reach is not None:
            reach.stop()
            report["reach"] = reach.counts
        prop.teardown_worker()
    except Exception:
        report["harness_errors"].append({"index": -1, "tb": traceback.format_exc()[-3000:]})
    report["wall"] = time.time() - t0
    with open(outpath, "w") as f:
        json.dump(report, f)


# ----------------------------------------------------------------------------- driver

def load_known():
    p = os.path.join(VERIF, "known_findings.json")
    if not os.path.exists(p):
        return []
    with open(p) as f:
        return json.load(f).get("findings", [])


def trim(obj, limit=1500):
    if isinstance(obj, str):
        return obj if len(obj) <= limit else obj[:limit] + f"...[{len(obj) - limit} more chars]"
    if isinstance(obj, dict):
        return {k: trim(v, limit) for k, v in obj.items()}
    if isinstance(obj, (list, tuple)):
        return [trim(v, limit) for v in list(obj)[:40]]
    return obj


def _cap_file_size():
    # no file a worker (or a process it starts) writes may grow beyond 1 GiB: the disk is not to be filled by a runaway
    import resource
    resource.setrlimit(resource.RLIMIT_FSIZE, (1 << 30, 1 << 30))


def drive(pid, tier, seed, workers=None):
    t0 = time.time()
    prop = load_prop(pid)
    prop.tier, prop.seed = tier, seed
    n = prop.n_cases(tier)
    nw = max(1, min(workers or (os.cpu_count() or 4), 16, n))
    tmpd = tempfile.mkdtemp(prefix="vfdrv_")
    procs = []
    env = dict(os.environ)
    env[GUARD] = "1"
    env.setdefault("PYTHONHASHSEED", "0")
    env["PYTHONPATH"] = os.path.join(repo_root(), "src") + os.pathsep + VERIF
    env["PYTHONDONTWRITEBYTECODE"] = "1"
    env["PYTHONWARNINGS"] = "ignore"
    for w in range(nw):
        out = os.path.join(tmpd, f"w{w}.json")
        wenv = env
        if nw > 1 and w == nw - 1 and getattr(prop, "OPTIMISED_WORKER", True):
            # the last worker runs its share of the cases the way `python -O` does (assert statements compiled away): code that
            # relies on an assert for something it must do shows there
            wenv = dict(env, PYTHONOPTIMIZE="2" if seed % 2 == 0 else "1")      # -OO on even seeds: docstrings are gone too
        # (what a worker prints goes to a file, not to a pipe the driver would have to hold in memory: a case that makes the
        #  code under test print without end must end in the watchdog, not in the driver's memory)
        with open(out + ".log", "wb") as lf:
            p = subprocess.Popen([PY, "-m", "vf.core", "--worker", pid, tier, str(seed), str(w), str(nw), out],
                                 cwd=VERIF, env=wenv, stdout=lf, stderr=subprocess.STDOUT, preexec_fn=_cap_file_size)
        procs.append((p, out))
    watchdog = prop.watchdog_s(tier)
    reports, inconclusive = [], []
    deadline = time.time() + watchdog
    for p, out in procs:
        try:
            p.wait(timeout=max(1, deadline - time.time()))
        except subprocess.TimeoutExpired:
            p.kill()
            p.wait()
            inconclusive.append("worker-watchdog")
            continue
        if p.returncode != 0 or not os.path.exists(out):
            o = b""
            try:
                with open(out + ".log", "rb") as lf:
                    lf.seek(max(0, os.path.getsize(out + ".log") - 800))
                    o = lf.read()
            except OSError:
                pass
            inconclusive.append("worker-died:" + o.decode(errors="replace")[-800:])
            continue
        with open(out) as f:
            reports.append(json.load(f))
    import shutil
    shutil.rmtree(tmpd, ignore_errors=True)

    merged = {"cases": 0, "obs": {}, "sets": {}, "samples": [], "skipped": {}, "violations": [],
              "harness_errors": [], "extra": [], "reach": {}}
    sigs = set()
    for r in reports:
        merged["cases"] += r["cases"]
        sigs.update(r["nontrivial_sigs"])
        for k, v in r["obs"].items():
            merged["obs"][k] = merged["obs"].get(k, 0) + v
        for k, v in r["sets"].items():
            merged["sets"].setdefault(k, set()).update(v)
        for k, v in r["skipped"].items():
            merged["skipped"][k] = merged["skipped"].get(k, 0) + v
        merged["samples"].extend(r["samples"])
        merged["violations"].extend(r["violations"])
        merged["harness_errors"].extend(r["harness_errors"])
        if "extra" in r:
            merged["extra"].append(r["extra"])
        for k, v in r.get("reach", {}).items():
            if v < 0:
                merged["reach"].setdefault(k, -1)
            else:
                merged["reach"][k] = max(0, merged["reach"].get(k, 0)) + v
    if merged["harness_errors"]:
        inconclusive.append("harness-error: " + merged["harness_errors"][0]["tb"][-1200:])

    # ---- classify violations: known finding vs. new
    known = [k for k in load_known() if k["property"] == pid]
    known_keys = {k["key"]: k for k in known}
    by_cls = {}
    for v in sorted(merged["violations"], key=lambda v: v["index"]):
        by_cls.setdefault(v["cls"], []).append(v)
    new_classes, known_seen = [], {}
    for cls, vs in by_cls.items():
        if cls in known_keys:
            known_seen[cls] = len(vs)
        else:
            new_classes.append(cls)

    replay_paths = {}
    outroot = os.environ.get("VERIF_OUT", VERIF)     # scratch runs (self-test against a patched copy) write elsewhere
    rdir = os.path.join(outroot, "replays", pid)
    if os.path.isdir(rdir):
        for _f in os.listdir(rdir):
            if f"-s{seed}-{tier}-" in _f:
                os.remove(os.path.join(rdir, _f))
    for cls in new_classes:
        os.makedirs(rdir, exist_ok=True)
        v = by_cls[cls][0]
        safe = "".join(c if c.isalnum() or c in "-_." else "_" for c in cls)[:60]
        path = os.path.join(rdir, f"{safe}-s{seed}-{tier}-i{v['index']}.json")
        with open(path, "w") as f:
            json.dump({"property": pid, "seed": seed, "tier": tier, "index": v["index"], "cls": cls,
                       "detail": v["detail"], "witness": v["witness"],
                       "count_in_run": len(by_cls[cls])}, f, indent=1, default=str)
        replay_paths[cls] = path

    # ---- M-reach: an anchored function that was never entered means the deciding code was not exercised
    for a, cnt in sorted(merged["reach"].items()):
        if cnt == 0:
            inconclusive.append(f"anchored function never reached: {a}")
    # ---- prop-specific sanity of what was observed (zero counters => inconclusive)
    try:
        inconclusive.extend(prop.check_observed(merged, tier) or [])
    except Exception:
        inconclusive.append("check_observed failed: " + traceback.format_exc()[-600:])

    wall = time.time() - t0
    cov = {
        "evaluations": merged["cases"],
        "distinct_nontrivial": len(sigs),
        "rule": prop.RULE,
        "samples": trim(merged["samples"][:4]),
        "observed": dict(sorted(merged["obs"].items())),
        "distinct_seen": {k: sorted(v)[:60] for k, v in sorted(merged["sets"].items())},
        "distinct_seen_counts": {k: len(v) for k, v in sorted(merged["sets"].items())},
        "skipped_cases": merged["skipped"],
        "known_findings_reobserved": known_seen,
        "anchored_calls": dict(sorted(merged["reach"].items())),
        "violation_classes": {c: len(by_cls[c]) for c in new_classes},
        "inconclusive_reasons": [s[:300] for s in inconclusive],
        "workers": nw,
        "repo": repo_root(),
    }
    cov.update(prop.extra_coverage(merged, tier) or {})
    ev = {"property_id": pid, "tier": tier, "seed": seed, "level": prop.LEVEL, "coverage": cov,
          "assumptions": prop.ASSUMPTIONS, "wall_s": round(wall, 2),
          "violations": sum(len(by_cls[c]) for c in new_classes)}
    os.makedirs(os.path.join(outroot, "evidence"), exist_ok=True)
    with open(os.path.join(outroot, "evidence", f"{pid}.json"), "w") as f:
        json.dump(ev, f, indent=1, default=str)

    # ---- report
    for cls, cnt in sorted(known_seen.items()):
        print(f"KNOWN-FINDING: property={pid} {known_keys[cls]['what']} [class {cls}, re-observed {cnt}x]")
    for cls in new_classes:
        print(f"VIOLATION property={pid} replay={replay_paths[cls]}")
        print(f"  class={cls} count={len(by_cls[cls])} detail={str(by_cls[cls][0]['detail'])[:400]}")
    print(f"[{pid}] tier={tier} seed={seed} cases={merged['cases']} distinct_nontrivial={len(sigs)} "
          f"violation_classes={len(new_classes)} known={len(known_seen)} wall={wall:.1f}s")
    keys = prop.HEADLINE or sorted(merged["obs"])[:8]
    print("  observed: " + ", ".join(f"{k}={merged['obs'].get(k, 0)}" for k in keys))
    if new_classes:
        return EXIT_VIOLATION
    if inconclusive:
        for s in inconclusive:
            print(f"INCONCLUSIVE property={pid} reason={s[:1500]}")
        return EXIT_INCONCLUSIVE
    return EXIT_HELD


def _set_pipeline(prop, idx):
    """Entry-level checks (PIPELINES = True) send a fixed share of their cases through cminx.main instead of calling the
    Documenter directly; the check's whole oracle then judges the page the command line produced."""
    from . import runner as _r
    _r.PIPELINE = _r.pipeline_for(idx) if getattr(prop, "PIPELINES", False) else "documenter"


def replay(path):
    with open(path) as f:
        r = json.load(f)
    pid, seed, tier, idx = r["property"], r["seed"], r["tier"], r["index"]
    os.environ[GUARD] = "1"
    sys.path.insert(0, os.path.join(repo_root(), "src"))
    prop = load_prop(pid)
    prop.tier, prop.seed = tier, seed
    prop.setup_worker()
    _set_pipeline(prop, idx)
    res = prop.run_case(idx, case_rng(pid, seed, tier, idx))
    prop.teardown_worker()
    known_keys = {k["key"] for k in load_known() if k["property"] == pid}
    bad = [v for v in res.violations if v["cls"] not in known_keys]
    print(json.dumps({"recorded_class": r.get("cls"), "reproduced": [v["cls"] for v in res.violations],
                      "violations": trim(res.violations, 4000)}, indent=1, default=str))
    if bad:
        print(f"VIOLATION property={pid} replay={path}")
        return EXIT_VIOLATION
    return EXIT_HELD


class BaseProp:
    ID = "C00"
    LEVEL = "exploration"
    RULE = ""
    ASSUMPTIONS = []
    HEADLINE = []
    tier = "quick"
    seed = 0

    def n_cases(self, tier):
        raise NotImplementedError

    def watchdog_s(self, tier):
        return 900 if tier == "quick" else 7200

    def setup_worker(self):
        pass

    def teardown_worker(self):
        pass

    def worker_extra(self):
        return None

    def run_case(self, idx, rng):
        raise NotImplementedError

    def check_observed(self, merged, tier):
        return []

    def extra_coverage(self, merged, tier):
        return {}


if __name__ == "__main__":
    if sys.argv[1] == "--worker":
        _, _, pid, tier, seed, w, nw, out = sys.argv[:8]
        worker_main(pid, tier, int(seed), int(w), int(nw), out)
