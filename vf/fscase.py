"""Shared workload for C14/C15: (tree, exclusion patterns from several sources, options, listing order) -> monitored run."""
import itertools
import os

from . import runner, fsrun, gitmatch
from .treegen import gen_tree, reference_walk, expected_outputs, Tree, cmake_text


def gen_patterns(rng, tree, inp_abs, auto, n=None):
    names_d = sorted({os.path.basename(d) for d in tree.dirs if d})
    names_f = sorted({os.path.basename(f) for f in tree.files})
    pats, forms = [], []
    n = rng.choice([0, 1, 1, 2, 3, 4, 6]) if n is None else n
    for _ in range(n):
        form = rng.choice(["name-file", "name-dir", "glob", "glob", "dir-slash", "starstar", "inside", "abs-file", "abs-dir",
                           "all-cmake-of-dir", "name-at-several-depths", "name-at-several-depths"])
        p = None
        if form == "name-at-several-depths":
            # a bare name that exists directly in the input directory AND deeper: it must match at every depth
            top = {os.path.basename(x) for x in list(tree.files) + [d for d in tree.dirs if d] if os.path.dirname(x) == ""}
            deep = {os.path.basename(x) for x in list(tree.files) + [d for d in tree.dirs if d] if os.path.dirname(x) != ""}
            both = sorted(top & deep)
            if both:
                p = rng.choice(both)
                if p in {os.path.basename(d) for d in tree.dirs} and rng.random() < 0.5:
                    p += "/"
        elif form == "name-file" and names_f:
            p = rng.choice(names_f)
        elif form == "name-dir" and names_d:
            p = rng.choice(names_d)
        elif form == "glob":
            p = rng.choice(["e*.cmake", "e*", "a*", "*.cmake.in", "*b", "?", "e?.cmake", "*-*", "*.md", "a?", "*_last.cmake",
                            "[ab].cmake", "top.*", "*.CMAKE", "*.CMake", ".*", ".ci/", ".hidden.cmake", ".c*", ".tools"])
            if "[" in p:
                p = "a.cmake"
        elif form == "dir-slash" and (names_d or names_f):
            p = rng.choice(names_d + names_f[:2]) + "/"
        elif form == "starstar" and (names_d or names_f):
            p = "**/" + rng.choice(names_d + names_f + ["e*.cmake", "a*/"])
        elif form == "inside" and names_d and auto:
            p = "**/" + rng.choice(names_d) + "/**"
        elif form == "abs-file" and tree.files:
            p = os.path.join(inp_abs, rng.choice(sorted(tree.files)))
        elif form == "abs-dir" and len(tree.dirs) > 1:
            p = os.path.join(inp_abs, rng.choice(sorted(d for d in tree.dirs if d))) + rng.choice(["", "/"])
        elif form == "all-cmake-of-dir" and len(tree.dirs) > 1:
            d = rng.choice(sorted(x for x in tree.dirs if x))
            for f in tree.files_of(d):
                if f.lower().endswith(".cmake"):
                    pats.append(f)
                    forms.append("all-cmake-of-dir")
            continue
        if p:
            pats.append(p)
            forms.append(form)
    return pats, forms


class FsCase:
    pass


def build_case(rng, everything=False, flat=False):
    c = FsCase()
    if flat:
        t = Tree()
        stems = rng.sample(["e1", "e2", "e3", "top", "a", "zz"], rng.randint(2, 4))
        for s in stems:
            t.files[s + ".cmake"] = cmake_text(s + ".cmake")
        for d in rng.sample(["aa", "ab", "ac"], rng.randint(0, 5 - len(stems)) if len(stems) < 5 else 0):
            t.dirs.add(d)
            t.files[os.path.join(d, "in.cmake")] = cmake_text(os.path.join(d, "in.cmake"))
        if "top.cmake" not in t.files:
            t.files["top.cmake"] = cmake_text("top.cmake")
        c.tree = t
    else:
        c.tree = gen_tree(rng, max_depth=rng.choice([1, 2, 3, 4]), case_twins=rng.random() < 0.3, index_module=rng.random() < 0.08, symlinks=rng.random() < 0.2,
                          dirlinks=rng.random() < 0.2, follow=rng.random() < 0.5,
                          deep_chain=rng.choice([0] * 40 + [18, 34]), many_files=rng.choice([0] * 25 + [20, 40, 300, 700]))
    c.recursive = rng.random() < 0.8
    c.auto = rng.random() < 0.6
    c.everything = everything
    return c


def run_case(c, rng, sb, order, res, patterns=None, allow_extra_input=True, prefix=None, prefix_src="cli"):
    """Executes the case; fills c.ref / c.fr / c.out_abs / c.inp. `patterns`: fixed list, else generated."""
    inp = os.path.join(sb, "work", "proj")
    c.inp = inp
    c.tree.write(inp)
    cwd = os.path.join(sb, "work")
    home = os.path.join(sb, "home")
    os.makedirs(home, exist_ok=True)
    out_abs = os.path.join(sb, "out", "docs")
    c.out_abs = out_abs
    if patterns is None:
        if c.everything:
            pats, forms = [rng.choice(["*", "**", "proj", "proj/", inp, inp + "/", "**/proj", "**/proj/"])], ["everything"]
        else:
            pats, forms = gen_patterns(rng, c.tree, inp, c.auto)
        # keep the quantifier's carve-outs: the input itself is not excluded by accident, and the top directory keeps a
        # lower-case .cmake file when auto-exclusion is on
        if not c.everything:
            keep = []
            for p, f in zip(pats, forms):
                sp = gitmatch.Spec([p])
                if sp.excluded(inp, True) or sp.excluded(os.path.dirname(inp), True):
                    continue
                keep.append((p, f))
            pats, forms = [p for p, _ in keep], [f for _, f in keep]
            sp = gitmatch.Spec(pats)
            if c.auto and not any(f.endswith(".cmake") and not sp.excluded(os.path.join(inp, f), False)
                                  for f in c.tree.files_of("")):
                c.tree.files["keepme.cmake"] = cmake_text("keepme.cmake")
                c.tree.write(inp)
                if sp.excluded(os.path.join(inp, "keepme.cmake"), False):
                    pats, forms = [], []
        c.patterns, c.forms = pats, forms
    else:
        c.patterns, c.forms = list(patterns), ["given"] * len(patterns)
        # the same carve-out for given pattern lists: with auto-exclusion on, the input directory itself keeps a
        # non-excluded lower-case .cmake file (otherwise the case is outside C13/C15's quantifier)
        sp = gitmatch.Spec(c.patterns)
        if c.auto and not sp.excluded(inp, True) and not any(
                f.endswith(".cmake") and not sp.excluded(os.path.join(inp, f), False) for f in c.tree.files_of("")):
            if sp.excluded(os.path.join(inp, "keepme.cmake"), False):
                c.auto = False
            else:
                c.tree.files["keepme.cmake"] = cmake_text("keepme.cmake")
                c.tree.write(inp)
    # distribute the patterns over the sources
    src = {"cli": [], "sfile": [], "user": []}
    for p in c.patterns:
        src[rng.choice(["cli", "cli", "sfile", "user"])].append(p)
    c.sources = {k: list(v) for k, v in src.items()}
    # the input may be spelled relatively (cwd = work); a second input (a lone file) follows in 40% of the runs and may
    # itself be excluded by a pattern
    cwd_kind = rng.choice(["parent", "parent", "root", "elsewhere"])
    if cwd_kind == "root":
        cwd = inp                 # run from inside the project: every top-level name also exists relative to the cwd
        spelled = rng.choice([inp, ".", "./"])
    elif cwd_kind == "elsewhere":
        cwd = home
        spelled = inp
    else:
        spelled = rng.choice([inp, inp, "proj", "./proj", "proj/"])
    c.cwd_kind = cwd_kind
    c.extra_input = None
    if allow_extra_input and rng.random() < 0.4 and not c.everything:
        xdir = os.path.join(sb, "work", "extra_in")
        os.makedirs(xdir, exist_ok=True)
        c.extra_input = os.path.join(xdir, "xin_file.cmake")
        with open(c.extra_input, "w") as f:
            f.write(cmake_text("xin_file.cmake"))
        if patterns is None and rng.random() < 0.5:
            c.patterns.append(rng.choice(["xin_file.cmake", c.extra_input, "xin_*", "**/xin_file.cmake", "extra_in/", xdir + "/"]))
            c.forms.append("extra-input-excluded")
            src[rng.choice(["cli", "sfile", "user"])].append(c.patterns[-1])
            c.sources = {k: list(v) for k, v in src.items()}
    argv = [spelled] + ([rng.choice([c.extra_input, os.path.relpath(c.extra_input, cwd)])] if c.extra_input else []) + ["-o", out_abs]
    if c.recursive:
        argv.append("-r")
    for p in src["cli"]:
        argv += ["-e", p]
    sfile = {}
    if src["sfile"]:
        sfile.setdefault("input", {})["exclude_filters"] = src["sfile"]
    if not c.auto:
        sfile.setdefault("input", {})["auto_exclude_directories_without_cmake"] = False
    if c.tree.dirlinks:
        res.count("runs_with_directory_symlinks")
        res.see("directory_symlinks", "followed" if c.tree.follow else "not followed")
        if c.tree.follow or rng.random() < 0.3:
            sfile.setdefault("input", {})["follow_symlinks"] = c.tree.follow
    if prefix is not None:
        if prefix_src == "cli":
            argv += ["-p", prefix]
        else:
            sfile.setdefault("rst", {})["prefix"] = prefix
    if sfile:
        cfg = os.path.join(sb, "cfg", "s.yaml")
        fsrun.write_yaml(cfg, sfile)
        argv += ["-s", cfg]
    if src["user"]:
        fsrun.write_yaml(os.path.join(home, ".config", "cminx", "config.yaml"), {"input": {"exclude_filters": src["user"]}})
    c.argv = argv
    c.spec = gitmatch.Spec(c.patterns)
    c.ref = reference_walk(c.tree, inp, c.recursive, c.auto, c.spec)
    c.want = expected_outputs(c.ref)
    c.extra_page_expected = None
    if c.extra_input:
        xd = os.path.dirname(c.extra_input)
        excluded = c.spec.excluded(c.extra_input, False) or c.spec.excluded(xd, True)
        c.extra_page_expected = not excluded
        if not excluded:
            c.want = set(c.want) | {"xin_file.rst"}
    # in one case of eight the input path is a symbolic link to a directory with another name stored elsewhere: patterns,
    # titles and relative paths are all taken from the path as given
    # (not when the run starts inside the input: the kernel then reports the link's target as the working directory)
    c.linked_input = rng.random() < 0.15 and c.cwd_kind != "root"
    if c.linked_input:
        real = os.path.join(sb, "Q_store", "Q_checkout_0042")
        os.makedirs(os.path.dirname(real), exist_ok=True)
        os.rename(inp, real)
        os.symlink(real, inp)
        res.count("runs_with_symlinked_input_directory")
    # entries that are symbolic links to nothing (named like CMake files): set by the caller as c.dangling = [rel path, ...]
    for rel in getattr(c, "dangling", []):
        lp = os.path.join(inp, rel)
        if not os.path.lexists(lp):
            os.symlink(os.path.join(sb, "no-such-place", "gone.cmake"), lp)
    c.cwd, c.home = cwd, home
    c.fr = fsrun.run_monitored(sb, argv, cwd, home, order=order)
    c.got = fsrun.files_under(out_abs) if os.path.isdir(out_abs) else set()
    return c


def witness(c):
    return {"argv": c.argv, "extra_input": getattr(c, "extra_input", None), "patterns": c.patterns, "pattern_sources": c.sources, "recursive": c.recursive,
            "auto_exclude": c.auto, "tree_dirs": sorted(c.tree.dirs), "tree_files": sorted(c.tree.files),
            "expected": sorted(c.want), "got": sorted(c.got),
            "listings": [(os.path.relpath(p, c.inp), n) for p, n in c.fr.scandir_log][:30]}
