"""One monitored directory-mode execution of the real cminx.main in a sandbox."""
import os
import random

import yaml

from . import runner, monitors


class FsRun:
    def __init__(self):
        self.outcome = None
        self.audit = []
        self.scandir_log = []
        self.before = None
        self.after = None
        self.out_abs = None
        self.argv = None


ORDER_MODES = ["identity", "reversed", "shuffle", "shuffle", "adjacent"]


def make_order(rng, mode, adjacent_key=None):
    def order(path, names):
        names = list(names)
        if mode == "identity":
            return names
        if mode == "reversed":
            return names[::-1]
        if mode == "adjacent" and adjacent_key is not None:
            hit = [n for n in names if adjacent_key(path, n)]
            rest = [n for n in names if not adjacent_key(path, n)]
            rng.shuffle(rest)
            k = rng.randint(0, len(rest))
            return rest[:k] + hit + rest[k:]
        rng.shuffle(names)
        return names
    return order


def write_yaml(path, data):
    os.makedirs(os.path.dirname(path), exist_ok=True)
    with open(path, "w") as f:
        yaml.safe_dump(data, f)


def run_monitored(sb, argv, cwd, home, order=None, snapshot_root=None):
    """Runs cminx.main(argv) with the audit hook armed and (optionally) directory listings permuted."""
    fr = FsRun()
    fr.argv = list(argv)
    audit = monitors.AuditLog.get()
    if snapshot_root:
        fr.before = monitors.snapshot(snapshot_root)
    perm = monitors.ScandirPerm(order) if order is not None else None
    audit.arm()
    try:
        if perm:
            with perm:
                fr.outcome = runner.run_main(argv, cwd=cwd, home=home)
            fr.scandir_log = perm.log
        else:
            fr.outcome = runner.run_main(argv, cwd=cwd, home=home)
    finally:
        fr.audit = audit.disarm()
        fr.audit_seen = audit.seen
    if snapshot_root:
        fr.after = monitors.snapshot(snapshot_root)
    return fr


def files_under(root):
    out = set()
    for d, _, fs in os.walk(root):
        for f in fs:
            out.add(os.path.normpath(os.path.relpath(os.path.join(d, f), root)))
    return out


def dirs_under(root):
    out = set()
    for d, ds, _ in os.walk(root):
        for x in ds:
            out.add(os.path.normpath(os.path.relpath(os.path.join(d, x), root)))
    return out


def body_after_module_line(rst):
    """Everything after the `.. module::` heading line (title and module name are path derived)."""
    lines = rst.split("\n")
    for i, l in enumerate(lines):
        if l.startswith(".. module::"):
            return "\n".join(lines[i + 1:])
    return None


def parse_toctree(text):
    """-> (title lines, [toctree entries], number of toctree directives, options)"""
    lines = text.split("\n")
    ents, n, opts = [], 0, []
    i = 0
    while i < len(lines):
        if lines[i].startswith(".. toctree::"):
            n += 1
            i += 1
            while i < len(lines) and (lines[i].strip() == "" or lines[i].startswith("   ")):
                s = lines[i].strip()
                if s.startswith(":"):
                    opts.append(s)
                elif s:
                    ents.append(s)
                i += 1
            continue
        i += 1
    return lines[:4], ents, n, opts
