"""Oracles shared by the entry-level properties: compare the entry forest CMinx emitted
(as read by rstscan) with the forest the reference model expects."""
import re

from . import rstscan
from .modgen import LINE_ID, NAME_ID


def nows(s):
    return re.sub(r"\s+", "", s)


def observed_top(page):
    """[(kind, uid, node)] for the top-level entries, in output order."""
    out = []
    for n in page.entries():
        out.append((rstscan.kind_of(n), n.uid(), n))
    return out


def compare_sequence(res, exp, obs, where="top", unasserted_names=()):
    """exp: [Entry]; obs: [(kind, uid, node)]. Records violations on `res`. Returns {uid: node} of matches.
    `unasserted_names`: heading names (implementing definitions separated from their declaration by other commands)
    for which neither an entry nor its absence is asserted -- the statement is ambiguous there."""
    if unasserted_names:
        obs = [(k, u, n) for k, u, n in obs
               if not (k in ("function", "macro") and any(n.arg.startswith(x + "(") for x in unasserted_names))]
    exp_ids = [e.uid for e in exp]
    want_count = {}
    for u in exp_ids:
        want_count[u] = want_count.get(u, 0) + 1
    pools = {}
    for k, u, n in obs:
        if u is None:
            res.violate(f"unattributed-entry:{k}@{where}", f"entry '{n.arg}' carries no generated id", None)
            continue
        pools.setdefault(u, []).append((k, n))
    expd = {e.uid: e for e in exp}
    for u, lst in pools.items():
        if u not in expd:
            res.violate(f"extra-entry:{lst[0][0]}@{where}", f"unexpected entry '{lst[0][1].arg}' (id {u})", None)
        elif len(lst) > want_count[u]:
            kinds = sorted({k for k, _ in lst})
            res.violate(f"duplicate-entry:{'+'.join(kinds)}@{where}", f"id {u} has {len(lst)} entries ({kinds}), expected "
                        f"{want_count[u]}", None)
    # align: every expected entry takes the next unused observed node with its id
    used = {}
    pairs = []
    matched = Matched()
    for e in exp:
        lst = pools.get(e.uid, [])
        i = used.get(e.uid, 0)
        if i < len(lst):
            used[e.uid] = i + 1
            k, n = lst[i]
            pairs.append((e, k, n))
            matched.setdefault(e.uid, n)
        else:
            what = "missing-entry" if i == 0 else "missing-repeated-entry"
            res.violate(f"{what}:{e.kind}@{where}", f"no entry for {e.kind} '{e.name}' (id {e.uid}, occurrence {i + 1})", None)
    # order
    o = [u for _, u, _ in obs if u in expd]
    trimmed, cnt = [], {}
    for u in o:
        cnt[u] = cnt.get(u, 0) + 1
        if cnt[u] <= want_count[u]:
            trimmed.append(u)
    x, cnt = [], {}
    for u in exp_ids:
        cnt[u] = cnt.get(u, 0) + 1
        if cnt[u] <= len(pools.get(u, [])):
            x.append(u)
    if trimmed != x:
        res.violate(f"order@{where}", f"expected id order {x}, got {trimmed}", None)
    for e, k, n in pairs:
        if k != e.kind_as_observed():
            res.violate(f"kind:{e.kind}->{k}@{where}", f"'{n.arg}' rendered as {k}, expected {e.kind}", None)
    matched.pairs = [(e, n) for e, _, n in pairs]
    return matched


class Matched(dict):
    """{uid: first node}; .pairs = [(expected entry, node)] aligned in order (repeated commands allowed)"""
    pairs = ()


OBS_KIND = {"function": "function", "macro": "macro", "data": "data", "option": "option", "class": "class",
            "test": "test", "section": "section", "ctest": "ctest", "generic": "generic", "method": "method",
            "ctor": "method", "attr": "attr"}


def _kind_as_observed(self):
    return OBS_KIND[self.kind]


from .modgen import Entry  # noqa: E402
Entry.kind_as_observed = _kind_as_observed


def class_sections(node):
    """Split a py:class block into sections by caption: returns dict caption -> [child nodes] using line order."""
    caps = {}
    order = []
    cur = None
    events = [(i, "cap", l.strip()) for i, l in node.content if re.fullmatch(r"\s*\*\*[A-Za-z ]+\*\*\s*", l)]
    events += [(c.lineno, "node", c) for c in node.children]
    # bullet items of the inner class list
    events += [(i, "bullet", l.strip()) for i, l in node.content if l.strip().startswith("* ")]
    for _, t, v in sorted(events, key=lambda e: e[0]):
        if t == "cap":
            cur = v.strip("*")
            caps.setdefault(cur, [])
            order.append(cur)
        else:
            caps.setdefault(cur, []).append(v)
    return caps, order


def compare_class(res, e, node, where):
    caps, order = class_sections(node)

    def ids(lst, name):
        return [(rstscan.kind_of(c), c.uid(), c) for c in lst if isinstance(c, rstscan.Node) and c.name == name]
    got_ctors = ids(caps.get("Additional Constructors", []), "py:method")
    got_methods = ids(caps.get("Methods", []), "py:method")
    got_attrs = ids(caps.get("Attributes", []), "py:attribute")
    loose = [c for c in caps.get(None, []) if isinstance(c, rstscan.Node) and c.name in ("py:method", "py:attribute")]
    for c in loose:
        res.violate(f"member-outside-section@{where}", f"'{c.arg}' precedes any section caption in class {e.name}", None)
    m = Matched()
    pairs = []
    for lst, got_ in ((e.ctors, got_ctors), (e.methods, got_methods), (e.attrs, got_attrs)):
        r_ = compare_sequence(res, lst, got_, where + "/" + ("ctors" if lst is e.ctors else "methods" if lst is e.methods else "attrs"))
        for k_, v_ in r_.items():
            m.setdefault(k_, v_)
        pairs.extend(r_.pairs)
    m.pairs = pairs
    bullets = [b for b in caps.get("Inner classes", []) if isinstance(b, str)]
    got_inner = []
    for b in bullets:
        mm = re.fullmatch(r"\* :class:`(.*)`", b)
        got_inner.append(mm.group(1) if mm else b)
    if got_inner != list(e.inner):
        res.violate(f"inner-class-list@{where}", f"class {e.name}: inner list {got_inner}, expected {e.inner}", None)
    for cap, lst in (("Additional Constructors", e.ctors), ("Methods", e.methods), ("Attributes", e.attrs),
                     ("Inner classes", e.inner)):
        if bool(lst) != (cap in caps):
            res.violate(f"caption:{cap}@{where}", f"class {e.name}: caption '{cap}' present={cap in caps}, "
                        f"members={len(lst)}", None)
    return m


def doc_ledger(res, e, node, where, depth):
    """C01 oracle for one entry: the generated lines must appear as one contiguous run, in order,
    each exactly content-indent + text."""
    ind = " " * (3 * (depth + 1))
    exp = list(e.doc)
    direct = [l for _, l in node.content]
    got = [(i, l) for i, l in enumerate(direct) if LINE_ID.search(l)]
    want_ids = []
    for t in exp:
        m = LINE_ID.search(t)
        want_ids.append((int(m.group(1)), int(m.group(2))) if m else None)
    got_ids = []
    for _, l in got:
        m = LINE_ID.search(l)
        got_ids.append((int(m.group(1)), int(m.group(2))))
    exp_with_id = [w for w in want_ids if w is not None]
    if got_ids != exp_with_id:
        missing = [w for w in exp_with_id if w not in got_ids]
        foreign = [g for g in got_ids if g not in exp_with_id]
        dup = len(got_ids) != len(set(got_ids))
        if foreign:
            cls = "doc-line-foreign"
        elif missing:
            cls = "doc-line-missing"
        elif dup:
            cls = "doc-line-duplicated"
        else:
            cls = "doc-line-order"
        res.violate(f"{cls}@{where}", f"{e.kind} '{e.name}': expected line ids {exp_with_id}, got {got_ids}",
                    {"block": node.lines[:60]})
        return False
    if not exp:
        return True
    # contiguity + verbatim: find the run in `direct`
    if got:
        first = got[0][0]
        # lines without ids (empty doc lines) may precede the first id line
        lead = 0
        for t in exp:
            if LINE_ID.search(t):
                break
            lead += 1
        start = first - lead
    else:
        # only empty lines: nothing to locate
        return True
    ok = True
    for j, t in enumerate(exp):
        pos = start + j
        line = direct[pos] if 0 <= pos < len(direct) else None
        if t == "":
            if line is None or line.strip(" ") != "" or len(line) > len(ind):
                res.violate(f"doc-blank-line-altered@{where}", f"{e.kind} '{e.name}': empty doc line {j} became {line!r}",
                            {"block": node.lines[:60]})
                ok = False
        else:
            if line != ind + t:
                cls = "doc-line-altered"
                if line is not None and line.strip() == t.strip():
                    cls = "doc-line-whitespace-altered"
                res.violate(f"{cls}@{where}", f"{e.kind} '{e.name}': line {j} expected {ind + t!r} got {line!r}",
                            {"block": node.lines[:60]})
                ok = False
    return ok
