"""Abstract CMake modules with ground truth, and a token-level renderer with layouts.

The generator knows what it wrote: every name carries a unique id (…N<uid>Z), every doc
line a unique id ({L<uid>.<k>}), so each heading / line of CMinx's output can be attributed
to one source item without going through CMinx's lexer, aggregator or writer.
"""
import re

LINE_ID = re.compile(r"\{L(\d+)\.(\d+)\}")
NAME_ID = re.compile(r"N(\d+)Z")


class Item:
    def __init__(self, kind, cmd, args, uid, doc=None, body=None, endcmd=None, endargs=None, impl=None,
                 is_impl=False, **gt):
        self.kind = kind          # function macro option set add_test ct_add_test ct_add_section cpp_class
        #                           cpp_attr cpp_member cpp_constructor generic plain block cpa dangling
        self.cmd = cmd            # command identifier, lower case
        self.args = args          # list of str (single argument as written) or list (parenthesised group)
        self.uid = uid
        self.doc = doc            # list of body line texts, or None
        self.body = body          # list of Items or None
        self.endcmd = endcmd
        self.endargs = endargs or []
        self.impl = impl
        self.is_impl = is_impl
        self.leaderless = False
        self.between = []         # non-definition commands written between a declaration and its implementing definition
        self.gt = gt              # ground truth fields (name, params, ...)

    def end_item(self):
        """pseudo item standing for the (documented) closing command"""
        if getattr(self, "_end_item", None) is None:
            self._end_item = Item("generic", self.endcmd, list(self.endargs), self.uid, doc=list(self.end_doc))
        return self._end_item

    def walk(self):
        yield self
        for b in self.between:
            yield from b.walk()
        if self.impl is not None:
            yield from self.impl.walk()
        for b in self.body or []:
            yield from b.walk()

    def shape(self):
        """Structure with ids and literals erased (for counting distinct cases)."""
        return [self.kind, self.doc is not None, len(self.args), [b.shape() for b in self.between],
                self.impl.shape() if self.impl else None,
                [b.shape() for b in self.body] if self.body is not None else None]


class Module:
    def __init__(self, items, module_doc=None, module_name=None):
        self.items = items
        self.module_doc = module_doc      # list of lines or None
        self.module_name = module_name    # '' -> '@module' without a name
        self.module_uid = 0

    def walk(self):
        for it in self.items:
            yield from it.walk()

    def shape(self):
        return [self.module_doc is not None, bool(self.module_name), [i.shape() for i in self.items]]


# ------------------------------------------------------------------ tokens

def flat_arg_tokens(args):
    out = []
    for a in args:
        if isinstance(a, list):
            out.append(("LP", "("))
            out.extend(flat_arg_tokens(a))
            out.append(("RP", ")"))
        else:
            out.append(("ARG", a))
    return out


def item_tokens(it, out):
    if it.kind == "dangling":
        out.append(("DOC", it))
        return
    if it.doc is not None:
        out.append(("DOC", it))
    out.append(("ID", it.cmd))
    out.append(("LP0", "("))
    out.extend(flat_arg_tokens(it.args))
    out.append(("RP0", ")"))
    for b in it.between:
        item_tokens(b, out)
    if it.impl is not None:
        item_tokens(it.impl, out)
    if it.body is not None:
        for b in it.body:
            item_tokens(b, out)
    if it.endcmd:
        if getattr(it, "end_doc", None) is not None:
            out.append(("DOC", it.end_item()))
        out.append(("ID", it.endcmd))
        out.append(("LP0", "("))
        out.extend(flat_arg_tokens(it.endargs))
        out.append(("RP0", ")"))


def module_tokens(mod):
    out = []
    if mod.module_doc is not None:
        out.append(("MDOC", mod))
    for it in mod.items:
        item_tokens(it, out)
    return out


# ------------------------------------------------------------------ layout

LINE_COMMENT_TEXTS = ["", " plain comment", "set(x 1)", " function(", " #]]", "#[[[ fake", "]] x", " \"unterminated",
                      " (", " ) )", "[ not bracket", "[=", "[=x]=]", " endfunction()", "\t tab", " cpp_end_class()",
                      " @module nope", "[==x", " \\", " ${x}",
                      # characters that Python's str.splitlines() takes for line ends but CMake (and the grammar) do not:
                      # what follows them is still comment text
                      " note\u2028function(ghost_ls_fn a)", " x\u2029set(GHOST_PS 1)", " page\x0cmacro(ghost_ff_m)", " nel\x85option(GHOST_NEL \"h\" ON)",
                      " vt\x0badd_test(NAME ghost_vt COMMAND x)", " fs\x1cfunction(ghost_fs)"]
BRACKET_COMMENT_TEXTS = [" plain ", "set(x 1)", " function( ", "\n multi\n line\n", " #[[[ fake ", " \" ", " ( ",
                         "", " endmacro() ", " # ", "\n#[[[\n# looks like a doccomment\n#", " ]=] ", " ] ] "]


class Layout:
    """Chooses everything that is *not* a token: whitespace, comments, command-name case,
    doccomment indentation. `plain` gives one canonical layout (one command per line)."""

    def __init__(self, rng=None, comments=0.0, wild=0.0, case="lower", doc_indent=None, eol="\n", docforms=0.0):
        self.rng = rng
        self.docforms = docforms    # probability that a doccomment is written in an unusual form (closer inline / one line)
        self.comments = comments    # probability of a comment at a gap that allows one
        self.wild = wild            # probability of unusual whitespace at a gap
        self.case = case            # lower | upper | mixed | random
        self.doc_indent = doc_indent
        self.eol = eol
        self.stats = {"line_comments": 0, "bracket_comments": 0, "gaps": 0}

    # -- pieces
    def _p(self, p):
        return self.rng is not None and self.rng.random() < p

    def ident(self, name):
        mode = self.case
        if mode == "random" and self.rng is not None:
            mode = self.rng.choice(["lower", "upper", "mixed"])
        if mode == "upper":
            return name.upper()
        if mode == "mixed" and self.rng is not None:
            return "".join(c.upper() if self.rng.random() < 0.5 else c for c in name)
        return name

    def hspace(self, minimum=0):
        if self.rng is None or not self._p(self.wild):
            return " " * minimum
        return "".join(self.rng.choice(" \t") for _ in range(self.rng.randint(max(minimum, 1), 4)))

    def line_comment(self):
        self.stats["line_comments"] += 1
        return "#" + self.rng.choice(LINE_COMMENT_TEXTS)

    def bracket_comment(self):
        self.stats["bracket_comments"] += 1
        lvl = self.rng.randint(0, 3)
        txt = self.rng.choice(BRACKET_COMMENT_TEXTS)
        if lvl == 0:
            txt = txt.replace("]]", "] ]")
            if txt.startswith("["):
                txt = " " + txt
        else:
            txt = txt.replace("]" + "=" * lvl + "]", "]-]")
        eq = "=" * lvl
        return f"#[{eq}[{txt}]{eq}]"

    def interline(self):
        """Zero or more whole lines between commands: blank, whitespace-only, comments."""
        if self.rng is None:
            return ""
        s = ""
        while self._p(max(self.comments, self.wild) * 0.6):
            r = self.rng.random()
            if r < 0.3 or self.comments == 0:
                s += self.hspace() + "\n"
            elif r < 0.65:
                s += self.hspace() + self.line_comment() + "\n"
            else:
                s += self.hspace() + self.bracket_comment() + self.hspace() + "\n"
        return s

    def arg_gap(self, mandatory):
        """Between tokens inside an argument list. `mandatory`: at least one separator."""
        self.stats["gaps"] += 1
        if self.rng is None:
            return " " if mandatory else ""
        s = ""
        if self._p(self.wild):
            s += self.rng.choice([" ", "  ", "\t", "\n", "\n    ", " \n\t", " \t "])
        elif mandatory:
            s += " "
        if self._p(self.comments * 0.5):
            if mandatory and not s:
                s = " "
            if self._p(0.5):
                s += self.line_comment() + "\n" + self.hspace()
            else:
                s += self.bracket_comment() + self.rng.choice([" ", "\n", "\t"])
        if mandatory and not s:
            s = " "
        return s


def doc_block(lines, indent, opener="#[[[", leaderless=False, raw=None, form="canonical"):
    """form: "canonical" (delimiters on lines of their own), "close-inline" (the closing '#]]' directly behind the last text
    line) or "oneline" ('#[[[ text#]]'); the two unusual forms are only used where they clean to the same text."""
    ok_last = bool(lines) and lines[-1] != "" and lines[-1][-1] not in "#] \t" and not leaderless and raw is None
    if form == "oneline" and ok_last and len(lines) == 1 and opener == "#[[[" and not lines[0].lstrip().startswith("@module"):
        # ('#[[[ @module' opens a MODULE doccomment, wherever it stands)
        return indent + "#[[[ " + lines[0] + "#]]\n"
    if form == "open-inline" and lines and lines[0] != "" and lines[0][0] not in "#[] \t" and not leaderless and raw is None \
            and opener == "#[[[" and not lines[0].lstrip().startswith("@module"):
        # the first text line stands on the opening line: '#[[[ first' / '# second' / '#]]'
        body = [indent + ("# " + t if t != "" else "#") for t in lines[1:]]
        return "\n".join([indent + "#[[[ " + lines[0]] + body + [indent + "#]]"]) + "\n"
    if form == "close-inline" and ok_last:
        body = [indent + ("# " + t if t != "" else "#") for t in lines]
        body[-1] += "#]]"
        return "\n".join([indent + opener] + body) + "\n"
    out = [indent + opener]
    if raw is not None:
        # free-form body (C04 only): lines exactly as given after the uniform block indentation
        return "\n".join(out + [indent + l for l in raw] + [indent + "#]]"]) + "\n"
    for t in lines:
        if leaderless:
            out.append(indent + t)
        else:
            out.append(indent + ("# " + t if t != "" else "#"))
    out.append(indent + "#]]")
    return "\n".join(out) + "\n"


def render(mod, layout=None):
    lay = layout or Layout()
    toks = module_tokens(mod)
    out = []
    i = 0
    n = len(toks)
    depth = 0
    while i < n:
        k, v = toks[i]
        if k == "MDOC":
            ind = lay.doc_indent if lay.doc_indent is not None else ""
            name = v.module_name
            opener = "#[[[ @module" + (" " + name if name else "")
            out.append(doc_block(v.module_doc, ind, opener))
            i += 1
            continue
        if k == "DOC":
            out.append(lay.interline())
            if lay.doc_indent is not None:
                ind = lay.doc_indent
            elif lay.rng is not None and lay._p(lay.wild):
                ind = "".join(lay.rng.choice("  \t") for _ in range(lay.rng.randint(1, 9)))
            else:
                ind = ""
            if v.leaderless and lay.doc_indent is None:
                ind = ""
            form = "canonical"
            if lay.docforms and lay._p(lay.docforms):
                form = lay.rng.choice(["close-inline", "oneline", "open-inline"])
                lay.stats["unusual_doc_forms"] = lay.stats.get("unusual_doc_forms", 0) + 1
            out.append(doc_block(v.doc, ind, leaderless=v.leaderless, raw=getattr(v, "raw_lines", None), form=form))
            i += 1
            continue
        if k == "ID":
            out.append(lay.interline())
            out.append(lay.hspace())
            out.append(lay.ident(v))
            out.append(lay.hspace())
            i += 1
            continue
        if k in ("LP0", "LP"):
            out.append("(")
            depth += 1
            nxt = toks[i + 1][0]
            out.append(lay.arg_gap(False))
            i += 1
            continue
        if k == "ARG":
            out.append(v)
            nxt = toks[i + 1][0]
            # separator is mandatory before another argument or an opening parenthesis
            out.append(lay.arg_gap(nxt in ("ARG", "LP")))
            i += 1
            continue
        if k == "RP":
            out.append(")")
            depth -= 1
            nxt = toks[i + 1][0]
            out.append(lay.arg_gap(nxt in ("ARG", "LP")))
            i += 1
            continue
        if k == "RP0":
            out.append(")")
            depth -= 1
            tail = lay.hspace()
            if lay.rng is not None and lay._p(lay.comments * 0.4):
                tail += lay.line_comment()
            out.append(tail + "\n")
            i += 1
            continue
        raise AssertionError(k)
    out.append(lay.interline())
    text = "".join(out)
    if lay.eol != "\n":
        text = text.replace("\n", lay.eol)
    return text


# ------------------------------------------------------------------ expected entries (reference model)

class Entry:
    def __init__(self, kind, item, name, sig=None):
        self.kind = kind          # function macro data option class test section ctest generic method ctor attr module
        self.item = item
        self.uid = item.uid if item is not None else 0
        self.name = name
        self.sig = sig            # expected text inside the parentheses (None: not asserted)
        self.doc = item.doc if (item is not None and item.doc is not None) else []
        self.attrs, self.methods, self.ctors, self.inner = [], [], [], []
        self.fields = {}

    def brief(self):
        d = {"kind": self.kind, "name": self.name, "sig": self.sig}
        if self.kind == "class":
            d.update(attrs=[e.name for e in self.attrs], methods=[e.name for e in self.methods],
                     ctors=[e.name for e in self.ctors], inner=list(self.inner))
        return d


def join_args(args):
    out = []
    for a in args:
        if isinstance(a, list):
            out.append("( " + join_args(a) + " )" if a else "( )")
        else:
            out.append(a)
    return " ".join(out)


def own_body_has_cpa(it):
    """cmake_parse_arguments in the body of this definition, outside nested definitions."""
    def scan(items):
        for b in items:
            if b.kind == "cpa":
                return True
            if b.kind in ("function", "macro"):
                continue
            # declarations carry their implementing definition: that is a nested definition
            if b.body is not None and b.kind not in ("function", "macro") and scan(b.body):
                return True
        return False
    return scan(it.body or [])


def expected_entries(mod, trigger=":keyword"):
    """The statements of C02/C03/C09/C10/C11 as code, for default include_undocumented_* settings.
    Returns the flat top-level entry list in source order."""
    top = []
    stack = []

    def visit(it):
        k = it.kind
        if k in ("function", "macro") and not it.is_impl:
            e = Entry(k, it, it.gt["name"])
            params = list(it.gt["params"])
            kw = own_body_has_cpa(it) or (it.doc is not None and any(trigger in l for l in it.doc)
                                         and bool(trigger))
            if trigger == "" and it.doc is not None:
                kw = True
            e.sig = " ".join(params + (["**kwargs"] if kw else []))
            e.kwargs = kw
            top.append(e)
        elif k == "option":
            e = Entry("option", it, it.gt["name"])
            e.fields = {"Help text": it.gt["help"], "Default value": it.gt.get("default") or "OFF", "type": "bool"}
            top.append(e)
        elif k == "set":
            if it.doc is not None:
                e = Entry("data", it, it.gt["name"])
                e.fields = {"Default value": it.gt["default"], "type": it.gt["type"]}
                top.append(e)
        elif k == "add_test":
            e = Entry("ctest", it, it.gt["name"], " ".join(it.gt["rest"]))
            top.append(e)
        elif k in ("ct_add_test", "ct_add_section"):
            e = Entry("test" if k == "ct_add_test" else "section", it, it.gt["name"],
                      "EXPECTFAIL" if it.gt["expectfail"] else "")
            top.append(e)
        elif k == "cpp_class":
            e = Entry("class", it, it.gt["name"])
            e.bases = it.gt["bases"]
            top.append(e)
            if stack:
                stack[-1].inner.append(it.gt["name"])
            stack.append(e)
        elif k == "cpp_attr":
            e = Entry("attr", it, it.gt["name"])
            e.default = it.gt.get("default")
            if stack:
                stack[-1].attrs.append(e)
        elif k in ("cpp_member", "cpp_constructor"):
            e = Entry("method" if k == "cpp_member" else "ctor", it, it.gt["name"])
            e.params = it.gt["params"]
            e.types = it.gt["types"]
            e.is_macro = it.impl is not None and it.impl.cmd == "macro"
            if stack:
                (stack[-1].methods if k == "cpp_member" else stack[-1].ctors).append(e)
        elif k in ("generic", "block") and it.doc is not None:
            e = Entry("generic", it, it.cmd, join_args(it.args))
            top.append(e)
        # children in source order: commands before the implementing definition, its body, then the own body
        for b in it.between:
            visit(b)
        if it.impl is not None:
            for b in it.impl.body or []:
                visit(b)
        for b in it.body or []:
            visit(b)
        if k == "cpp_class":
            stack.pop()
        if getattr(it, "end_doc", None) is not None and it.endcmd:
            # a doccomment in front of the closing command: the closing command is documented as an ordinary command (and still
            # closes what it closes)
            top.append(Entry("generic", it.end_item(), it.endcmd, join_args(it.endargs)))

    for it in mod.items:
        visit(it)
    return top
