"""pytest plugin (-p vf.pytest_contracts): runtime contracts on the real functions while the REPOSITORY'S OWN tests run
-- monitors under somebody else's workload. Results (evaluation counts, violations) go to $VF_CONTRACT_REPORT.

  * RSTWriter.to_text / Directive.to_text / __str__: object graph identical before and after (C20 purity)
  * RSTWriter (not Directive): heading frames the current title with the level's character (C20), as an icontract class
    invariant when icontract is importable (installed by setup.sh into .deps), else by the same predicate called from
    the to_text wrapper
  * DocumentationAggregator.clean_doc_lines: for canonical-form input, output line j == input line j minus indentation,
    leader and one blank (C01)
"""
import json
import os
import sys

REPORT = {"evaluations": {}, "violations": [], "icontract": False}


def _count(k):
    REPORT["evaluations"][k] = REPORT["evaluations"].get(k, 0) + 1


def _violate(kind, detail):
    if len(REPORT["violations"]) < 50:
        REPORT["violations"].append({"kind": kind, "detail": detail[:600]})


def title_framed(self):
    from cminx.rstwriter import Directive
    if isinstance(self, Directive):
        return True
    _count("title_frame_invariant")
    t = self.title
    c = self.header_char
    ok = str(self.document[0]) == f"\n{c * len(t)}\n{t}\n{c * len(t)}"
    if not ok:
        _violate("title-frame", f"title {t!r} heading {str(self.document[0])!r}")
    return True          # record, never abort somebody else's test


def canonical(lines):
    """-> list of body texts if `lines` (raw doccomment token lines) are in the canonical form, else None"""
    if len(lines) < 2 or lines[0].strip() != "#[[[":
        return None
    last = lines[-1]
    ind = last[:len(last) - len(last.lstrip(" \t"))]
    if last[len(ind):] != "#]]":
        return None
    out = []
    for l in lines[1:-1]:
        if not l.startswith(ind):
            return None
        b = l[len(ind):]
        if b == "#":
            out.append("")
        elif b.startswith("# "):
            out.append(b[2:])
        else:
            return None
    return out


def pytest_configure(config):
    sys.path.insert(0, os.path.join(os.path.dirname(os.path.dirname(os.path.abspath(__file__))), ".deps"))
    from vf.props.c20 import snap
    import cminx.rstwriter as rw
    import cminx.aggregator as ag

    def wrap_to_text(cls, name):
        real = getattr(cls, name)

        def wrapped(self, *a, **k):
            before = json.dumps(snap(self), sort_keys=True, ensure_ascii=False, default=str)
            r = real(self, *a, **k)
            after = json.dumps(snap(self), sort_keys=True, ensure_ascii=False, default=str)
            _count(f"purity:{cls.__name__}.{name}")
            if before != after:
                _violate("serialisation-mutates-document", f"{cls.__name__}.{name}")
            r2 = real(self, *a, **k)
            if r2 != r:
                _violate("serialisation-not-repeatable", f"{cls.__name__}.{name}")
            if cls is rw.RSTWriter and not REPORT["icontract"]:
                title_framed(self)
            return r
        setattr(cls, name, wrapped)
    wrap_to_text(rw.RSTWriter, "to_text")
    wrap_to_text(rw.Directive, "to_text")
    try:
        import icontract

        class _Never(Exception):
            pass
        rw.RSTWriter = icontract.invariant(title_framed, error=_Never)(rw.RSTWriter)
        REPORT["icontract"] = True
    except Exception as e:      # noqa: BLE001 -- tooling must not break the run
        REPORT["icontract_error"] = repr(e)[:200]

    real_clean = ag.DocumentationAggregator.clean_doc_lines

    def clean(lines):
        r = real_clean(lines)
        exp = canonical(list(lines))
        if exp is None:
            _count("clean_doc_lines:non-canonical-input-skipped")
        else:
            _count("clean_doc_lines:canonical-postcondition")
            want = "\n".join(exp + [""])
            if r != want:
                _violate("clean_doc_lines-postcondition", f"input {lines!r} -> {r!r}, expected {want!r}")
        return r
    ag.DocumentationAggregator.clean_doc_lines = staticmethod(clean)


def pytest_unconfigure(config):
    p = os.environ.get("VF_CONTRACT_REPORT")
    if p:
        with open(p, "w") as f:
            json.dump(REPORT, f)
