"""Independent matcher for exactly the gitignore pattern forms C15 enumerates.

  name / glob without slash      -> matches a path component at any depth
  trailing slash                 -> ... that component must be a directory
  leading **/                    -> any depth (same as a bare name)
  **/x/**                        -> everything below a directory x at any depth
  absolute path (leading /)      -> that file or directory (and what is below it)
'*' matches within one component; '**' only in the positions above. Not from pathspec."""
import re


def _glob_re(g):
    out = ""
    for ch in g:
        if ch == "*":
            out += "[^/]*"
        elif ch == "?":
            out += "[^/]"
        else:
            out += re.escape(ch)
    return re.compile("^" + out + "$")


class Pattern:
    def __init__(self, text):
        self.text = text
        p = text
        self.dir_only = p.endswith("/") and not p.endswith("**/")
        if self.dir_only:
            p = p[:-1]
        self.inside_only = False
        self.absolute = p.startswith("/")
        if not self.absolute:
            while p.startswith("**/"):
                p = p[3:]
            if p.endswith("/**"):
                p = p[:-3]
                self.inside_only = True
            if "/" in p:
                raise ValueError("pattern form not supported by the reference matcher: " + text)
            self.re = _glob_re(p)
        self.body = p

    def match(self, abspath, is_dir):
        """abspath: normalised absolute path without trailing slash."""
        if self.absolute:
            if abspath == self.body:
                return is_dir or not self.dir_only
            return abspath.startswith(self.body.rstrip("/") + "/")
        comps = [c for c in abspath.split("/") if c]
        n = len(comps)
        for i, c in enumerate(comps):
            last = i == n - 1
            if not self.re.match(c):
                continue
            comp_is_dir = (not last) or is_dir
            if self.inside_only:
                if not last:
                    return True
                continue
            if self.dir_only and not comp_is_dir:
                continue
            return True
        return False


class Spec:
    def __init__(self, patterns):
        self.patterns = [Pattern(p) for p in patterns]

    def excluded(self, abspath, is_dir):
        return any(p.match(abspath, is_dir) for p in self.patterns)
