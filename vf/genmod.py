"""Random abstract modules (see modgen) — the workload generator shared by the entry-level
properties. All decisions come from the case PRNG; hostile vocabularies are listed here."""
from .modgen import Item, Module

# command names that collide with the implementation's own dispatch namespace or look special
PLAIN_CMDS = ["message", "include_guard", "list", "include", "find_package", "add_library", "target_link_libraries",
              "string", "file", "math", "return", "unset", "set_property", "project", "cmake_minimum_required",
              "my_cmd", "cpp_get", "ct_assert_equal", "docs", "generic", "process", "settings", "documented",
              "end_class", "cpp_end", "function_", "macro2", "endfunction_", "set_", "option_", "add_test_",
              "cmake_parse_argument", "class", "test", "enterCommand_invocation", "clean_doc_lines", "logger",
              "consumed"]
BLOCKS = [("if", "endif"), ("foreach", "endforeach"), ("while", "endwhile")]


def default_docline(rng, uid, k):
    words = ["alpha", "beta", "gamma", "delta", "the", "value", "of", "param", "returns", "x"]
    n = rng.randint(0, 5)
    return f"{{L{uid}.{k}}} " + " ".join(rng.choice(words) for _ in range(n))


class Builder:
    def __init__(self, rng, p_doc=0.5, max_depth=3, kinds=None, docline=None, max_doc_lines=4,
                 mkparam=None, allow_dangling=True, allow_cpa=True, hostile_names=True, allow_blocks=True,
                 mkdoc=None, compound_generic=True, max_items=8, name_forms=False, trigger=":keyword",
                 p_trigger=0.0, p_between=0.12, p_reuse_params=0.12, p_clone=0.0, clone_toggle_doc=False,
                 class_arg_variants=False, virtual_members=False, p_doc_impl=0.0, helpers_in_tests=0.0, p_end_doc=0.0):
        self.rng = rng
        self.uid = 0
        self.p_doc = p_doc
        self.max_depth = max_depth
        self.kinds = kinds or ["function", "macro", "option", "set", "add_test", "ct_add_test", "cpp_class",
                               "generic", "plain", "block", "cpa", "dangling"]
        self.docline = docline or default_docline
        self.max_doc_lines = max_doc_lines
        self.mkparam = mkparam
        self.mkdoc = mkdoc
        self.allow_dangling = allow_dangling
        self.helpers_in_tests = helpers_in_tests
        self.p_end_doc = p_end_doc              # a doccomment in front of a CLOSING command (endfunction, cpp_end_class, ...)
        self.allow_cpa = allow_cpa
        self.hostile_names = hostile_names
        self.allow_blocks = allow_blocks
        self.compound_generic = compound_generic
        self.max_items = max_items
        self.name_forms = name_forms
        self.trigger = trigger
        self.p_trigger = p_trigger
        self.p_between = p_between
        self.p_reuse_params = p_reuse_params
        self._last_params = {}
        self.unasserted_impl_names = set()
        self.p_clone = p_clone                  # repeat an earlier command of the same list verbatim (same name!)
        self.clone_toggle_doc = clone_toggle_doc
        self.class_arg_variants = class_arg_variants
        self.virtual_members = virtual_members
        self.virtuals = 0
        self.p_doc_impl = p_doc_impl            # doccomments on implementing definitions (their own entry is not asserted)
        self.clones = 0

    # ---- small helpers
    def new_uid(self):
        self.uid += 1
        return self.uid

    def name(self, prefix, uid):
        return f"{prefix}N{uid}Z"

    def doc(self, uid, force=None):
        want = force if force is not None else (self.rng.random() < self.p_doc)
        if not want:
            return None
        if self.mkdoc is not None:
            return self.mkdoc(self.rng, uid)
        n = self.rng.randint(0, self.max_doc_lines)
        lines = [self.docline(self.rng, uid, k) for k in range(n)]
        if self.p_trigger and self.rng.random() < self.p_trigger and self.trigger:
            # the trigger in the middle of a line or, as one writes a field, at its very start
            tl = f"{{L{uid}.{n}}} {self.trigger} FOO: something" if self.rng.random() < 0.5 else \
                f"{self.trigger} FOO: something {{L{uid}.{n}}}"
            # ... as the last line of the doccomment or (one time in three) as its first
            if self.rng.random() < 0.33:
                lines.insert(0, tl)
            else:
                lines.append(tl)
        elif self.p_trigger and self.rng.random() < self.p_trigger and self.trigger:
            # near misses: a single word of a trigger that contains blanks, the trigger without its last character,
            # the trigger in another letter case -- none of them is the configured string
            parts = self.trigger.split()
            near = [self.trigger[:-1], self.trigger.swapcase()] + (parts if len(parts) > 1 else [])
            near = [x for x in near if x and self.trigger not in x]
            if near:
                lines.append(f"{{L{uid}.{n}}} " + " | ".join(self.rng.sample(near, min(len(near), 2))) + " is not the trigger")
        return lines

    def simple_value(self):
        r = self.rng
        return r.choice(["ON", "OFF", "1", "abc", '"a b"', '"x"', "${VAR}", "[[br]]", "a.b", "-DFOO=1", '""',
                         "lib/foo.cmake", "$ENV{HOME}", '"semi;colon"', "[=[a]b]=]", "TRUE", '"two  blanks   here"',
                         '"tab\there"', "[[a   b]]", '"  lead and trail  "', r'"Hello\nWorld"', r'"col\tsep"', r'"quote \" inside"', r'"back\\slash"'])

    max_params = 4

    def params(self, uid, kind, lo=0, hi=None):
        """-> (written list, expected list)"""
        hi = self.max_params if hi is None else hi
        # sometimes the very same parameter list as an earlier definition of this kind (shared-state bugs need equal lists)
        if kind in self._last_params and self.rng.random() < self.p_reuse_params:
            w, e = self._last_params[kind]
            return list(w), list(e)
        n = self.rng.randint(lo, hi)
        w, e = [], []
        for j in range(n):
            if self.mkparam is not None:
                a, b = self.mkparam(self.rng, uid, j, kind)
            else:
                a = b = f"pN{uid}Z{j}"
            w.append(a)
            e.append(b)
        if w:
            self._last_params[kind] = (list(w), list(e))
        return w, e

    def compound(self, depth=0):
        """A parenthesised group with plain arguments before, between and after nested groups."""
        r = self.rng
        out = []
        for _ in range(r.randint(0, 4)):
            if depth < 3 and r.random() < 0.35:
                out.append(self.compound(depth + 1))
            else:
                out.append(r.choice(["A", "AND", "OR", "NOT", "x", "${v}", '"q s"', "1", "STREQUAL"]))
        return out

    def gap_items(self):
        """0-2 non-definition commands between a declaration and its implementing definition."""
        if self.rng.random() >= self.p_between:
            return []
        return [self.rng.choice([self.option, self.set_, self.plain, self.add_test])() for _ in range(self.rng.randint(1, 2))]

    def def_name(self, prefix, uid):
        base = self.name(prefix, uid)
        if not self.name_forms:
            return base
        return self.rng.choice([base, f'"{base}"', "${" + base + "}", f'"${{{base}}}"', f"[[{base}]]", base + ".x",
                                base + "-y"])

    # ---- items
    def definition(self, depth, kind=None, is_impl=False, head=None, head_expected=None, doc=None, force_doc=None):
        r = self.rng
        uid = self.new_uid()
        kind = kind or r.choice(["function", "macro"])
        if head is None:
            nm = self.def_name("fn" if kind == "function" else "mc", uid)
            pw, pe = self.params(uid, kind)
            args = [nm] + pw
            gt = dict(name=nm, params=pe)
        else:
            args = list(head)
            gt = dict(name=head[0], params=head_expected)
        body = self.items(depth + 1, ctx="def")
        end = "end" + kind
        endargs = [args[0]] if (r.random() < 0.2 and args[0].isidentifier()) else []
        d = doc if doc is not None else (None if is_impl and force_doc is None else self.doc(uid, force_doc))
        it = Item(kind, kind, args, uid, doc=d, body=body, endcmd=end, endargs=endargs, is_impl=is_impl, **gt)
        if self.p_end_doc and not is_impl and args[0].isidentifier() and r.random() < self.p_end_doc:
            it.endargs = [args[0]]
            it.end_doc = [f"{{L{uid}.70}} doccomment in front of the closing command"]
        return it

    def nested_defs(self, depth):
        """A definition whose body holds another definition (and/or a member/test implementation); the
        cmake_parse_arguments calls sit in the inner one, in the outer one, in both or in neither -- each definition
        independently documented or not."""
        r = self.rng
        outer = self.definition(depth)
        inner = self.definition(depth + 1)
        inner.body = ([self.cpa()] if r.random() < 0.6 else []) + ([self.plain()] if r.random() < 0.3 else [])
        body = [inner]
        if r.random() < 0.3 and depth + 1 < self.max_depth:
            body.append(self.ct_test(depth + 1))
        if r.random() < 0.35:
            body.insert(r.randint(0, len(body)), self.cpa())
        if r.random() < 0.3:
            body.insert(r.randint(0, len(body)), self.plain())
        outer.body = body
        return outer

    def twin_defs(self, depth):
        """Two definitions of the same kind with the very same parameter list inside one if() block; the first may call
        cmake_parse_arguments, each is independently documented (shared-state bugs between definitions)."""
        r = self.rng
        kind = r.choice(["function", "macro"])
        first = self.definition(depth + 1, kind)
        while not first.gt["params"]:
            first = self.definition(depth + 1, kind)
        first.body = [self.cpa()] if r.random() < 0.7 else []
        uid = self.new_uid()
        nm = self.def_name("fn" if kind == "function" else "mc", uid)
        second = Item(kind, kind, [nm] + list(first.args[1:]), uid, doc=self.doc(uid), body=[self.plain()] if r.random() < 0.3 else [],
                      endcmd="end" + kind, name=nm, params=list(first.gt["params"]))
        buid = self.new_uid()
        return Item("block", "if", [f"cN{buid}Z"], buid, doc=None, body=[first, second], endcmd="endif")

    def option(self):
        r = self.rng
        uid = self.new_uid()
        nm = self.name("OPT", uid)
        hlp = r.choice(['"Help text here"', '"h"', "HELP", '"with ${ref}"', '""', '"a: b"'])
        dflt = r.choice([None, "ON", "OFF", '"ON"', "${DEFAULT}", "TRUE", "${lower_default}", "off"])
        args = [nm, hlp] + ([dflt] if dflt is not None else [])
        return Item("option", "option", args, uid, doc=self.doc(uid), name=nm, help=hlp, default=dflt)

    def set_(self, force_doc=None):
        r = self.rng
        uid = self.new_uid()
        nm = self.name("VAR", uid)
        n = r.choice([0, 1, 1, 2, 3, 3, 9, 14])
        vals = [self.simple_value() for _ in range(n)]
        if n >= 9:      # long lists / long values (no line breaks): the rendered default exceeds any sane line width
            vals = [v if r.random() < 0.5 else r.choice(["a_rather_long_identifier_value_" + str(i), '"quoted value number %d with spaces"' % i,
                                                         "${A_LONG_VARIABLE_REFERENCE_%d}" % i]) for i, v in enumerate(vals)]
        if n == 0:
            ty, dv = "UNSET", None
        elif n == 1:
            ty = "str"
            dv = vals[0][1:-1] if (len(vals[0]) >= 2 and vals[0][0] == '"' and vals[0][-1] == '"') else vals[0]
        else:
            ty, dv = "list", " ".join(vals)
        return Item("set", "set", [nm] + vals, uid, doc=self.doc(uid, force_doc), name=nm, type=ty, default=dv)

    def add_test(self):
        r = self.rng
        uid = self.new_uid()
        nm = self.name("ctN", uid)
        rest = ["COMMAND", r.choice(["exe", "${exe}", '"my exe"']), *[self.simple_value() for _ in range(r.randint(0, 2))]]
        if r.random() < 0.8:
            args = ["NAME", nm] + rest
        else:
            # CMake's short signature add_test(<name> <command> [args...]): still exactly one entry
            rest = [a for a in rest if a != "COMMAND"]
            args = [nm] + rest
        return Item("add_test", "add_test", args, uid, doc=self.doc(uid), name=nm, rest=rest)

    def ct_test(self, depth, section=False):
        r = self.rng
        uid = self.new_uid()
        nm = self.name("sec" if section else "tst", uid)
        ef = r.random() < 0.4
        args = ["NAME", nm] + (["EXPECTFAIL"] if ef else [])
        if ef and r.random() < 0.3:
            args = ["EXPECTFAIL", "NAME", nm]
        kind = "ct_add_section" if section else "ct_add_test"
        impl = self.test_impl(depth, nm)
        it = Item(kind, kind, args, uid, doc=self.doc(uid), impl=impl, name=nm, expectfail=ef)
        it.between = self.gap_items()
        if it.between:
            self.unasserted_impl_names.add(impl.gt["name"])
        return it

    def test_impl(self, depth, nm):
        r = self.rng
        uid = self.new_uid()
        kind = r.choice(["function", "function", "macro"])
        body = []
        if depth < self.max_depth:
            for _ in range(r.choice([0, 0, 1, 2])):
                body.append(self.ct_test(depth + 1, section=True))
                if r.random() < 0.3:
                    body.append(self.plain())
        if r.random() < 0.2 and self.allow_cpa:
            body.append(self.cpa())
        if self.helpers_in_tests and r.random() < self.helpers_in_tests and depth < self.max_depth:
            # an ordinary helper definition inside the test body, before, between or after its sections
            h = self.definition(depth + 1)
            h.body = [self.plain()] if r.random() < 0.4 else []
            body.insert(r.randint(0, len(body)), h)
        im = Item(kind, kind, ["${" + nm + "}"], uid, body=body, endcmd="end" + kind, is_impl=True,
                  name="${" + nm + "}", params=[], endargs=(["${" + nm + "}"] if r.random() < 0.2 else []))
        if self.p_doc_impl and r.random() < self.p_doc_impl:
            im.doc = [f"{{L{uid}.0}} doccomment on the implementing definition"]
            self.unasserted_impl_names.add(im.gt["name"])
        return im

    def cpa(self):
        uid = self.new_uid()
        return Item("cpa", "cmake_parse_arguments", [f"PN{uid}Z", '""', '"A;B"', '""', "${ARGN}"], uid)

    def plain(self, force_doc=None):
        r = self.rng
        uid = self.new_uid()
        pool = PLAIN_CMDS if self.hostile_names else PLAIN_CMDS[:14]
        cmd = r.choice(pool)
        args = [f"gN{uid}Z"] + [self.simple_value() for _ in range(r.randint(0, 3))]
        if self.compound_generic and r.random() < 0.2:
            args.insert(r.randint(0, len(args)), self.compound())
            if r.random() < 0.3:
                args.insert(r.randint(0, len(args)), self.compound())
        d = self.doc(uid, force_doc)
        return Item("generic" if d is not None else "plain", cmd.lower(), args, uid, doc=d, written_cmd=cmd)

    def block(self, depth):
        r = self.rng
        uid = self.new_uid()
        op, cl = r.choice(BLOCKS)
        if op == "foreach":
            args = [f"iN{uid}Z", "a", "b"]
        else:
            args = [f"cN{uid}Z"] + (["AND", self.compound(), "OR", "z"] if (self.compound_generic and r.random() < 0.3) else [])
        body = self.items(depth + 1, ctx="block")
        d = self.doc(uid) if r.random() < 0.3 else None
        return Item("block", op, args, uid, doc=d, body=body, endcmd=cl)

    def dangling(self):
        uid = self.new_uid()
        return Item("dangling", "", [], uid, doc=[self.docline(self.rng, uid, 0)])

    def member(self, depth, cls, ctor=False):
        r = self.rng
        uid = self.new_uid()
        nm = self.name(r.choice(["CTOR", "ctor"]) if ctor else "mth", uid)
        ntypes = r.randint(0, 4)
        types = [r.choice(["str", "int", "bool", "desc", "list", cls]) for _ in range(ntypes)]
        if r.random() < 0.15:
            types.append("args")
        iuid = self.new_uid()
        npar = r.choice([ntypes, ntypes, max(0, ntypes - 1), ntypes + 1])
        pw, pe = [], []
        for j in range(npar):
            if self.mkparam is not None:
                a, b = self.mkparam(r, iuid, j, "member")
            else:
                a = b = f"pN{iuid}Z{j}"
            pw.append(a)
            pe.append(b)
        if pw and r.random() < 0.1:
            j_ = r.randrange(len(pw))
            pw[j_] = pe[j_] = "args"            # a parameter that happens to be called like the variadic type
        ikind = r.choice(["function", "function", "macro"])
        body = []
        if depth < self.max_depth and r.random() < 0.4:
            body = [self.rng.choice([self.plain, self.set_])() for _ in range(r.randint(1, 2))]
            if r.random() < 0.3:
                body.append(self.definition(depth + 1))
            if r.random() < 0.2 and self.allow_blocks:
                body.append(self.block(depth + 1))
        if r.random() < 0.15 and self.allow_cpa:
            body.append(self.cpa())
        ref = r.choice(["${" + nm + "}", '"${' + nm + '}"'])
        # the instance argument is positional: any name may be used for it
        selfname = r.choice(["self", "self", "this", "_self", "me", "${self}", "obj"])
        impl = Item(ikind, ikind, [ref, selfname] + pw, iuid, body=body, endcmd="end" + ikind, is_impl=True,
                    name=ref, params=pe, endargs=([ref] if r.random() < 0.2 else []))      # endfunction("${name}")
        if self.p_doc_impl and r.random() < self.p_doc_impl:
            impl.doc = [f"{{L{iuid}.0}} doccomment on the implementing definition"]
            self.unasserted_impl_names.add(ref)
        kind = "cpp_constructor" if ctor else "cpp_member"
        it = Item(kind, kind, [nm, cls] + types, uid, doc=self.doc(uid), impl=impl, name=nm, params=pe, types=types)
        it.between = [x for x in self.gap_items() if x.kind != "cpp_attr"]
        if r.random() < self.p_between:
            # declarations first: an attribute of the class stands between the member declaration and its definition
            it.between.insert(r.randint(0, len(it.between)), self.attr(cls))
        if it.between:
            self.unasserted_impl_names.add(impl.gt["name"])
        return it

    def overload(self, m):
        """Another declaration with the same member name and the same parameter names but other declared types."""
        import copy
        c = copy.deepcopy(m)
        ntypes = len(c.gt["types"])
        c.gt["types"] = [self.rng.choice(["float", "path", "fn", "obj"]) for _ in range(max(ntypes, 1))]
        c.args = c.args[:2] + c.gt["types"]
        if c.doc is not None and self.rng.random() < 0.5:
            c.doc = None
        elif c.doc is None and self.rng.random() < 0.4:
            c.doc = self.doc(c.uid, True)          # the overload WITHOUT doccomment comes first, the documented one second
        self.clones += 1
        return c

    def attr(self, cls):
        r = self.rng
        uid = self.new_uid()
        nm = self.name("att", uid)
        dv = r.choice([None, None, "1", '"a string"', "${x}", "val", '""', '"    "', '"  |  "', '"a   b\tc"', "[[two  blanks]]"])
        args = [cls, nm] + ([dv] if dv is not None else [])
        return Item("cpp_attr", "cpp_attr", args, uid, doc=self.doc(uid), name=nm, default=dv)

    def klass(self, depth, force_doc=None):
        r = self.rng
        uid = self.new_uid()
        nm = self.name("Cls", uid)
        bases = [r.choice(["Base", "Other", "ns::B", f"CN{uid}ZB"]) for _ in range(r.choice([0, 0, 1, 2]))]
        body = []

        def carg():
            # the class argument of a member declaration: membership is positional, whatever is written here
            if not self.class_arg_variants or r.random() < 0.6:
                return nm
            return r.choice([nm.lower(), nm.upper(), f'"{nm}"', "${cls}", "OuterN0Z", "self_type"])
        for _ in range(r.randint(0, 5)):
            c = r.random()
            if c < 0.3:
                body.append(self.attr(carg()))
            elif c < 0.6:
                body.append(self.member(depth + 1, carg()))
                if self.p_clone and r.random() < self.p_clone * 2:
                    body.append(self.overload(body[-1]))
            elif c < 0.75:
                body.append(self.member(depth + 1, carg(), ctor=True))
                if self.p_clone and r.random() < self.p_clone * 2:
                    body.append(self.overload(body[-1]))
            elif c < 0.88 and depth < self.max_depth:
                body.append(self.klass(depth + 1))
            elif c < 0.94:
                body.append(self.plain())
            else:
                body.append(self.set_())
        # pure virtual members: a declaration without implementing definition (cpp_virtual_member follows), directly
        # followed by the next member declaration, which takes over the awaiting slot
        if self.virtual_members:
            for i in range(len(body) - 1):
                a, nx = body[i], body[i + 1]
                if a.kind in ("cpp_member", "cpp_constructor") and nx.kind in ("cpp_member", "cpp_constructor") and r.random() < 0.3:
                    a.impl = None
                    vuid = self.new_uid()
                    a.between = [Item("plain", "cpp_virtual_member", [a.gt["name"]], vuid)]
                    a.gt["params"] = []
                    self.virtuals += 1
            # ... and, in a third of the classes, explicitly: a DOCUMENTED pure virtual member directly followed by a member or
            # constructor WITHOUT doccomment that has a definition (whose parameters must never end up on the virtual one)
            if r.random() < 0.35:
                a = self.member(depth + 1, nm, ctor=r.random() < 0.3)
                a.doc = self.doc(a.uid, True)
                a.impl = None
                a.between = [Item("plain", "cpp_virtual_member", [a.gt["name"]], self.new_uid())]
                a.gt["params"] = []
                nx = self.member(depth + 1, nm, ctor=r.random() < 0.5)
                nx.doc = None
                body.extend([a, nx])
                self.virtuals += 1
        kl = Item("cpp_class", "cpp_class", [nm] + bases, uid, doc=self.doc(uid, force_doc), body=body,
                  endcmd="cpp_end_class", name=nm, bases=bases)
        if self.p_end_doc and r.random() < self.p_end_doc:
            kl.endargs = [nm]
            kl.end_doc = [f"{{L{uid}.70}} doccomment in front of the closing command"]
        return kl

    def item(self, depth, ctx):
        r = self.rng
        kinds = [k for k in self.kinds
                 if not (k == "dangling" and not self.allow_dangling)
                 and not (k == "cpa" and not self.allow_cpa)
                 and not (k == "block" and not self.allow_blocks)
                 and not (depth >= self.max_depth and k in ("function", "macro", "cpp_class", "block", "ct_add_test", "nested_defs", "twin_defs"))
                 and not (depth + 1 >= self.max_depth and k == "nested_defs")]
        if not kinds:
            return self.plain()
        k = r.choice(kinds)
        if k in ("function", "macro"):
            return self.definition(depth, k)
        if k == "nested_defs":
            return self.nested_defs(depth)
        if k == "twin_defs":
            return self.twin_defs(depth)
        if k == "option":
            return self.option()
        if k == "set":
            return self.set_()
        if k == "add_test":
            return self.add_test()
        if k == "ct_add_test":
            return self.ct_test(depth)
        if k == "ct_add_section":
            return self.ct_test(depth, section=True)
        if k == "cpp_class":
            return self.klass(depth)
        if k == "generic":
            return self.plain(force_doc=True)
        if k == "plain":
            return self.plain(force_doc=False)
        if k == "block":
            return self.block(depth)
        if k == "cpa":
            return self.cpa()
        if k == "dangling":
            return self.dangling()
        raise AssertionError(k)

    # ---- scale: shapes whose size, not spelling, is unusual
    def deep_definitions(self, n, documented_outer=True, cpa_in_outer=True):
        """n definitions nested inside each other (only the outermost may carry a doccomment); the outermost one calls
        cmake_parse_arguments AFTER the nested ones have been closed."""
        inner = None
        for lvl in range(n - 1, 0, -1):
            d = self.definition(self.max_depth, force_doc=False)
            d.body = [inner] if inner is not None else []
            inner = d
        outer = self.definition(self.max_depth, force_doc=documented_outer)
        outer.body = ([inner] if inner is not None else []) + ([self.cpa()] if cpa_in_outer and self.allow_cpa else [])
        return outer

    def deep_sections(self, n):
        """a CMakeTest test whose sections are nested n levels deep"""
        inner = None
        for lvl in range(n):
            sec = self.ct_test(self.max_depth, section=True)
            sec.impl.body = [inner] if inner is not None else []
            inner = sec
        t = self.ct_test(self.max_depth)
        t.impl.body = [inner]
        return t

    def many_groups(self, n):
        """a documented generic command with n parenthesised groups (none deeper than 2)"""
        uid = self.new_uid()
        args = [f"gN{uid}Z"]
        for k in range(n):
            args.append([f"k{k}", ["v", str(k)]] if k % 7 == 0 else [f"k{k}", f"v{k}"])
        return Item("generic", "register_pairs", args, uid, doc=self.doc(uid, True), written_cmd="register_pairs")

    def long_line_value(self, n):
        """a documented set() whose single quoted value is n characters long, all on one physical line"""
        it = self.set_(force_doc=True)
        val = '"' + ("chunk " * (n // 6 + 1))[:n] + '"'
        it.args = [it.args[0], val]
        it.gt["type"], it.gt["default"] = "str", val[1:-1]
        return it

    def items(self, depth, ctx="top", n=None):
        if n is None:
            hi = self.max_items if depth == 0 else max(1, 4 - depth)
            n = self.rng.randint(1 if depth == 0 else 0, hi)
        out = []
        for _ in range(n):
            it = self.item(depth, ctx)
            out.append(it)
        # a dangling doccomment must not sit directly before a command (it would document it)
        fixed = []
        for it in out:
            fixed.append(it)
        # the same command again (per-platform branches define the same function twice, the same message() is repeated ...)
        if self.p_clone:
            import copy
            extra = []
            for it in fixed:
                if it.kind in ("function", "macro", "option", "add_test", "generic", "set", "plain") and not it.is_impl \
                        and self.rng.random() < self.p_clone:
                    c = copy.deepcopy(it)
                    if self.clone_toggle_doc and self.rng.random() < 0.6:
                        c.doc = None if c.doc is not None else [f"{{L{c.uid}.90}} doccomment of the repeated command"]
                        if c.kind in ("generic", "plain"):
                            c.kind = "generic" if c.doc is not None else "plain"
                    if c.kind in ("function", "macro") and self.allow_cpa and self.rng.random() < 0.4:
                        # the repeated definition differs from the first one only inside its body: this one parses keyword
                        # arguments, the first one does not (or the other way round)
                        from .modgen import own_body_has_cpa
                        if own_body_has_cpa(c):
                            c.body = [b_ for b_ in (c.body or []) if b_.kind != "cpa"]
                        else:
                            c.body = list(c.body or []) + [self.cpa()]
                    extra.append(c)
                    self.clones += 1
            for c in extra:
                fixed.insert(self.rng.randint(0, len(fixed)), c) if False else fixed.append(c)
        # "declared up front": a test/section declaration that is directly followed by another declaration has no
        # implementing definition of its own (the next declaration takes over the awaiting slot)
        for i in range(len(fixed) - 1):
            a, nx = fixed[i], fixed[i + 1]
            if a.kind in ("ct_add_test", "ct_add_section") and nx.kind in ("ct_add_test", "ct_add_section") \
                    and nx.doc is None and self.rng.random() < 0.3:
                a.impl = None
                a.between = []
        return self._fix_dangling(fixed, depth)

    def _fix_dangling(self, items, depth):
        """A dangling doccomment is 'not followed by a command': keep it only where the next token is another
        doccomment (of a documented item) or the end of the file; otherwise drop it."""
        out = []
        nxt = None           # the element that will follow in the final sequence
        for it in reversed(items):
            if it.kind == "dangling":
                if nxt is None:
                    if depth != 0:
                        continue     # would document the block-closing command
                elif not (nxt.kind == "dangling" or nxt.doc is not None):
                    continue
            out.append(it)
            nxt = it
        out.reverse()
        return out

    def module(self, module_doc=False, module_name=None):
        items = self.items(0)
        md = None
        if module_doc:
            md = self.doc(0, True)
        return Module(items, md, module_name)
