"""docutils parse of CMinx output with stub directives/roles for the Sphinx constructs it uses.
Every stub directive becomes an `entry` node carrying its name, argument and options, with
its content parsed by nested_parse, so containment can be read off the doctree."""
import io

from docutils import nodes
from docutils.core import publish_doctree
from docutils.parsers.rst import Directive, directives, roles


class entry(nodes.General, nodes.Element):
    pass


class EntryDirective(Directive):
    has_content = True
    required_arguments = 0
    optional_arguments = 1
    final_argument_whitespace = True
    option_spec = {"value": directives.unchanged, "maxdepth": directives.unchanged, "noindex": directives.flag,
                   "type": directives.unchanged, "annotation": directives.unchanged}

    def run(self):
        node = entry()
        node["dname"] = self.name
        node["arg"] = self.arguments[0] if self.arguments else ""
        node["opts"] = dict(self.options)
        node.line = self.lineno
        self.state.nested_parse(self.content, self.content_offset, node)
        return [node]


class LiteralStub(Directive):
    has_content = True
    optional_arguments = 1
    final_argument_whitespace = True
    option_spec = {"linenos": directives.flag, "caption": directives.unchanged}

    def run(self):
        return [nodes.literal_block("\n".join(self.content), "\n".join(self.content))]


def generic_role(name, rawtext, text, lineno, inliner, options=None, content=None):
    return [nodes.literal(rawtext, text)], []


_registered = False


def register():
    global _registered
    if _registered:
        return
    for n in ("module", "function", "data", "py:class", "py:method", "py:attribute", "toctree"):
        directives.register_directive(n, EntryDirective)
    for n in ("code-block", "sourcecode"):
        directives.register_directive(n, LiteralStub)
    for r in ("class", "func", "ref", "py:class", "py:meth"):
        roles.register_local_role(r, generic_role)
    _registered = True


def parse(text):
    """-> (doctree, [(level, message text, line)])"""
    register()
    err = io.StringIO()
    dt = publish_doctree(text, settings_overrides={"report_level": 1, "halt_level": 5, "warning_stream": err,
                                                   "doctitle_xform": False, "sectsubtitle_xform": False,
                                                   "file_insertion_enabled": False, "raw_enabled": False})
    msgs = []
    for sm in dt.findall(nodes.system_message):
        msgs.append((sm["level"], sm.astext()[:200], sm.get("line")))
    return dt, msgs


def entry_ancestors(node):
    out = []
    p = node.parent
    while p is not None:
        if isinstance(p, entry):
            out.append(p)
        p = p.parent
    return out
