"""Reference tokenizer for the CMake language, written from cmake-language(7) and the
documented behaviour of CMake's own lexer -- NOT from CMinx's CMake.g4.

It yields the command invocations of a file with their argument lists as CMake cuts them
(quotes removed, backslash-newline continuations removed, bracket delimiters and the first
newline removed, parentheses as separate items) and classifies the file:

  VALID                      every construct is covered by the grammar
  INVALID(reason, offset)    unterminated-string | unterminated-bracket | unterminated-bracket-comment | bad-escape |
                             paren-imbalance | stray-text | text-after-command-on-same-line | identifier-separated-from-paren
  legacy flags               unquoted argument with embedded quote or $(...), argument glued to a preceding
                             quoted/bracket argument or bracket comment -- never asserted on

The lexer is itself validated against real CMake on every C05/C06 run."""
import re

IDENT = re.compile(r"[A-Za-z_][A-Za-z0-9_]*\Z")
BR_OPEN = re.compile(r"\[(=*)\[")


class Arg:
    __slots__ = ("kind", "value", "raw", "start", "end", "legacy")

    def __init__(self, kind, value, raw, start, end, legacy=False):
        self.kind, self.value, self.raw, self.start, self.end, self.legacy = kind, value, raw, start, end, legacy


class Command:
    __slots__ = ("name", "line", "start", "end", "args", "legacy")

    def __init__(self, name, line, start):
        self.name, self.line, self.start, self.end, self.args, self.legacy = name, line, start, None, [], False

    def values(self):
        return [a.value for a in self.args]


class LexResult:
    def __init__(self):
        self.commands = []
        self.invalid = None       # (reason, offset) of the first fault
        self.all_invalid = []     # every fault found (scanning continues after recoverable ones)
        self.legacy = False
        self.comment_spans = []   # (start, end) of line and bracket comments
        self.arg_spans = []

    @property
    def valid(self):
        return self.invalid is None


def _bracket_close(text, pos, level):
    """index just after the closing ]=*] for a bracket opened with `level` '=' signs, or -1"""
    close = "]" + "=" * level + "]"
    i = text.find(close, pos)
    return -1 if i < 0 else i + len(close)


def lex(text):
    r = LexResult()
    n = len(text)
    i = 0
    line = 1
    cur = None           # command being read
    depth = 0
    expect_paren = False # identifier seen, '(' must follow
    after_cmd = False    # ')' of a command seen, only space/comment/newline may follow on this line
    glued = False        # previous token was a quoted/bracket argument or bracket comment, no whitespace since
    soft_paren = False   # identifier separated from its '(' by comments/newlines only (reported, then tolerated)

    def fail(reason, off):
        r.all_invalid.append((reason, off))
        if r.invalid is None:
            r.invalid = (reason, off)

    while i < n:
        c = text[i]
        if c in " \t":
            i += 1
            glued = False
            continue
        if c == "\r" or c == "\n":
            if c == "\r" and i + 1 < n and text[i + 1] == "\n":
                i += 1
            i += 1
            line += 1
            glued = False
            after_cmd = False
            if expect_paren and not soft_paren:
                fail("stray-text", i)
                expect_paren = False
            continue
        if c == "#":
            m = BR_OPEN.match(text, i + 1)
            if m:
                end = _bracket_close(text, m.end(), len(m.group(1)))
                if end < 0:
                    fail("unterminated-bracket-comment", i)
                    r.comment_spans.append((i, n))
                    return r
                r.comment_spans.append((i, end))
                line += text.count("\n", i, end)
                i = end
                glued = True
                continue
            j = i
            while j < n and text[j] not in "\r\n":
                j += 1
            r.comment_spans.append((i, j))
            i = j
            continue
        if after_cmd:
            # something other than space/comment after the closing parenthesis on the same line: CMake wants a newline
            # after every command ("Expected a newline, got ..."). This is its own reason: C06's list of faults does not
            # name it and CMinx's grammar deliberately does not require the newline.
            fail("text-after-command-on-same-line", i)
            after_cmd = False
        if c == "(":
            if cur is None and not expect_paren:
                fail("stray-text", i)
                i += 1
                continue
            if expect_paren:
                expect_paren = False
                soft_paren = False
                depth = 1
            else:
                depth += 1
                cur.args.append(Arg("paren", "(", "(", i, i + 1))
            i += 1
            glued = False
            continue
        if c == ")":
            if cur is None or depth == 0:
                fail("paren-imbalance", i)
                i += 1
                continue
            depth -= 1
            if depth == 0:
                cur.end = i + 1
                r.commands.append(cur)
                cur = None
                after_cmd = True
            else:
                cur.args.append(Arg("paren", ")", ")", i, i + 1))
            i += 1
            glued = False
            continue
        # ---- an argument or identifier token starts here
        start = i
        kind = None
        if c == '"':
            j = i + 1
            val = []
            while True:
                if j >= n:
                    fail("unterminated-string", start)
                    return r
                ch = text[j]
                if ch == "\\":
                    if j + 1 >= n:
                        fail("unterminated-string", start)
                        return r
                    nx = text[j + 1]
                    if nx == "\n":
                        j += 2
                        continue
                    if nx == "\r" and j + 2 < n and text[j + 2] == "\n":
                        j += 3
                        continue
                    if nx.isalnum() and nx.isascii() and nx not in "tnr":
                        fail("bad-escape", j)
                    val.append(text[j:j + 2])
                    j += 2
                    continue
                if ch == '"':
                    break
                val.append(ch)
                j += 1
            end = j + 1
            kind, value = "quoted", "".join(val)
        else:
            m = BR_OPEN.match(text, i) if c == "[" else None
            if m:
                end = _bracket_close(text, m.end(), len(m.group(1)))
                if end < 0:
                    fail("unterminated-bracket", start)
                    return r
                inner = text[m.end():end - len(m.group(1)) - 2]
                if inner.startswith("\r\n"):
                    inner = inner[2:]
                elif inner.startswith("\n"):
                    inner = inner[1:]
                kind, value = "bracket", inner
            else:
                j = i
                legacy = False
                while j < n:
                    ch = text[j]
                    if ch in " \t\r\n()#":
                        break
                    if ch == '"':
                        # embedded quote: legacy unquoted argument; swallow through the matching quote
                        legacy = True
                        k = text.find('"', j + 1)
                        j = (k + 1) if k >= 0 else n
                        continue
                    if ch == "\\":
                        if j + 1 >= n:
                            fail("bad-escape", j)
                            j += 1
                            break
                        nx = text[j + 1]
                        if nx in "\r\n":
                            fail("bad-escape", j)
                            j += 1
                            break
                        if nx.isalnum() and nx.isascii() and nx not in "tnr":
                            fail("bad-escape", j)
                        j += 2
                        continue
                    if ch == "$" and j + 1 < n and text[j + 1] == "(":
                        legacy = True
                        k = text.find(")", j)
                        j = (k + 1) if k >= 0 else n
                        continue
                    j += 1
                end = j
                raw = text[start:end]
                kind, value = ("identifier" if IDENT.match(raw) else "unquoted"), raw
                if legacy:
                    r.legacy = True
                    if cur is not None:
                        cur.legacy = True
                if re.match(r"\[=+", raw) and not BR_OPEN.match(raw):
                    # '[=' not followed by a second '[': CMake 3.25 cuts this into '[' and '=...' with a
                    # "not separated" warning (observed) -- treated as a legacy form, never asserted on
                    r.legacy = True
                    if cur is not None:
                        cur.legacy = True
        line_here = line
        line += text.count("\n", start, end)
        if cur is None:
            # command position: must be an identifier followed by '('
            if kind != "identifier":
                fail("stray-text", start)
            else:
                cur = Command(text[start:end], line_here, start)
                expect_paren = True
                # only spaces/tabs may sit between the identifier and '('
                k = end
                while k < n and text[k] in " \t":
                    k += 1
                if k >= n or text[k] != "(":
                    # CMake insists on "identifier [blanks] (" ; if only comments / line breaks separate the two, the
                    # command is still recognisable (CMinx skips comments and newlines everywhere). That is a fault of
                    # its own kind, not one of C06's classes.
                    kk = k
                    while kk < n:
                        if text[kk] in " \t\r\n":
                            kk += 1
                            continue
                        if text[kk] == "#":
                            mm = BR_OPEN.match(text, kk + 1)
                            if mm:
                                e2 = _bracket_close(text, mm.end(), len(mm.group(1)))
                                if e2 < 0:
                                    break
                                kk = e2
                                continue
                            while kk < n and text[kk] not in "\r\n":
                                kk += 1
                            continue
                        break
                    if kk < n and text[kk] == "(":
                        fail("identifier-separated-from-paren", start)
                        soft_paren = True
                    else:
                        fail("stray-text", start)
                        cur = None
                        expect_paren = False
            i = end
            glued = False
            continue
        if expect_paren:
            fail("stray-text", start)
            expect_paren = False
        a = Arg(kind, value, text[start:end], start, end)
        if glued:
            a.legacy = True
            cur.legacy = True
            r.legacy = True
        cur.args.append(a)
        r.arg_spans.append((start, end))
        glued = kind in ("quoted", "bracket")
        i = end
        # a quoted/bracket argument directly followed by more argument text is the legacy glue form
        if glued and i < n and text[i] not in " \t\r\n()#":
            cur.legacy = True
            r.legacy = True
    if cur is not None or depth > 0:
        fail("paren-imbalance", n)
    if expect_paren:
        fail("stray-text", n)
    return r


def in_comment(r, off):
    return any(s <= off < e for s, e in r.comment_spans)
