#!/bin/sh
# selftest/sweep.sh <tier> <seed> [<seed>...]  -- every check on the CURRENT /repo tree for several VERIF_SEED values; evidence and
# replays go to a scratch directory (VERIF_OUT) so that the committed evidence is not overwritten. Prints one line per run and
# every VIOLATION / INCONCLUSIVE line; exit 1 if any run did not exit 0.
cd "$(dirname "$0")/.." || exit 1
TIER="$1"; shift
OUT="$(mktemp -d /tmp/vfsweep_XXXXXX)"; bad=0
for s in "$@"; do
  for n in 01 02 03 04 05 06 07 08 09 10 11 12 13 14 15 16 17 18 19 20; do
    VERIF_OUT="$OUT" VERIF_SEED=$s PYTHONHASHSEED=0 ./check C$n --tier "$TIER" > "$OUT/log" 2>&1; rc=$?
    grep -E "^\[C" "$OUT/log" | sed "s/^/rc=$rc /"
    if [ $rc -ne 0 ]; then bad=1; grep -E "VIOLATION|INCONCLUSIVE|class=|Traceback|Error" "$OUT/log" | cut -c1-300 | head -12; mkdir -p /tmp/vfsweep_keep; cp -r "$OUT/replays" /tmp/vfsweep_keep/ 2>/dev/null; fi
  done
done
rm -rf "$OUT"
exit $bad
