#!/bin/sh
# selftest/eval_delivery.sh <round dir> <ID> <k>   -- confirm one delivered change (<round dir>/out_<ID>/patch<k>.diff, demo<k>.py) and
# run the property's own check on it; one line of output. Typical use, three at a time:
#   for n in $(seq -w 1 20); do for k in 1 2; do echo "/tmp/seed8 C$n $k"; done; done | xargs -P 3 -L 1 selftest/eval_delivery.sh
cd "$(dirname "$0")/.." || exit 1
r=$(selftest/eval_seed.sh "$1/out_$2" "$3" quick "$2" 2>&1 | tr '\n' ' ' | cut -c1-420)
echo "=== $2 patch$3 $r"
