#!/venv/bin/python
"""selftest/store_round.py <round> <srcdir> <offset> [--alts C06-2=C19,C13-2=C16] [--first-no C02-2,...] [--only C01,C02]
Stores the seeded changes delivered by a round of sub-agents (<srcdir>/out_<ID>/patch<k>.diff, demo<k>.py, notes.md) as
seeded/<ID>-<offset+k>/ after confirming each independently (patch applies, suite passes, demo fails with / passes without)
and running the property's own check (then the alternatives) on it. meta.json is written from what was observed."""
import os, re, json, shutil, subprocess, sys, argparse, concurrent.futures as cf
ap = argparse.ArgumentParser()
ap.add_argument("round", type=int); ap.add_argument("src"); ap.add_argument("offset", type=int)
ap.add_argument("--alts", default=""); ap.add_argument("--first-no", default=""); ap.add_argument("--only", default="")
ap.add_argument("--origin", default="independent sub-agent given only the property record, its own scratch worktree and one-line descriptions of the earlier changes to avoid")
a = ap.parse_args()
os.chdir(os.path.join(os.path.dirname(os.path.abspath(__file__)), ".."))
first_no = set(filter(None, a.first_no.split(",")))
alts = {}
for kv in filter(None, a.alts.split(",")):
    k, v = kv.split("="); alts.setdefault(k, []).append(v)
jobs = []
for n in range(1, 21):
    pid = f"C{n:02d}"
    if a.only and pid not in a.only.split(","):
        continue
    src = f"{a.src}/out_{pid}"
    if not os.path.exists(f"{src}/notes.md"):
        continue
    secs = re.split(r"(?m)^#+ ", open(f"{src}/notes.md").read())
    for k in (1, 2):
        if not os.path.exists(f"{src}/patch{k}.diff"):
            continue
        sec = next((s for s in secs if re.match(rf"Change {k}\b", s)), "")
        head = sec.split("\n", 1)[0].strip()
        what = re.search(r"\* What[^:]*:(.*?)(?=\n\* |\Z)", sec, re.S)
        mech = (head + " :: " + re.sub(r"\s+", " ", what.group(1)).strip() if what else head)[:420]
        trig = re.search(r"\* Trigger[^:]*:(.*?)(?=\n\* |\Z)", sec, re.S)
        trig = re.sub(r"\s+", " ", trig.group(1)).strip()[:300] if trig else ""
        d = f"seeded/{pid}-{a.offset + k}"
        os.makedirs(d, exist_ok=True)
        shutil.copy(f"{src}/patch{k}.diff", f"{d}/patch.diff")
        shutil.copy(f"{src}/demo{k}.py", f"{d}/demo.py")
        shutil.copy(f"{src}/notes.md", f"{d}/notes.md")
        jobs.append((pid, k, d, mech, trig))


def run(j):
    pid, k, d, mech, trig = j
    key = f"{pid}-{k}"
    order = [pid] + alts.get(key, [])
    got = None
    out = subprocess.run(["selftest/eval_seed.sh", d, "-", "quick", order[0]], capture_output=True, text=True).stdout
    g = lambda rx: (re.search(rx, out) or [None, "?"])[1]      # noqa: E731
    if f"check {order[0]} rc=1" in out:
        got = order[0]
    cls = re.findall(r"class=([^ ;]+)", out)[:3]
    for alt in order[1:]:
        if got:
            break
        o2 = subprocess.run(["selftest/try_patch.sh", f"{d}/patch.diff", "quick", alt], capture_output=True, text=True).stdout
        if f"check {alt} rc=1" in o2:
            got, cls = alt, re.findall(r"class=([^ ;]+)", o2)[:3]
    meta = {"property": pid, "round": a.round, "origin": a.origin, "mechanism": mech, "needs_to_manifest": trig,
            "confirmed_by_us": {"patch applies to /repo HEAD": "PATCH-DOES-NOT-APPLY" not in out,
                                "repository suite with patch": g(r"suite-with-patch: (\d+ passed[^\n]*?)(?:,|$)"),
                                "demo.py without patch": "exit " + g(r"demo-without-patch rc=(\d+)"),
                                "demo.py with patch": "exit " + g(r"demo-with-patch rc=(\d+)"),
                                "how": f"selftest/eval_seed.sh {d} - quick {got or order[0]}"},
            "kept": True, "caught_by_check": got, "tier": "quick", "witness_classes": cls,
            "caught_at_first_try": "no" if key in first_no else "yes"}
    json.dump(meta, open(f"{d}/meta.json", "w"), indent=1, ensure_ascii=False)
    c = meta["confirmed_by_us"]
    return key, d, got, c["repository suite with patch"], c["demo.py without patch"], c["demo.py with patch"], cls


with cf.ThreadPoolExecutor(3) as ex:
    for r in ex.map(run, jobs):
        print(*r, flush=True)
