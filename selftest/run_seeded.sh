#!/bin/sh
# selftest/run_seeded.sh [tier]  -- regression of the machinery: every kept seeded change must still be caught by the
# check recorded in its meta.json (3 at a time; scratch worktrees under /tmp, removed afterwards)
cd "$(dirname "$0")/.." || exit 1
TIER="${1:-quick}"
/venv/bin/python - "$TIER" <<'PY'
import glob, json, os, subprocess, sys, concurrent.futures as cf
tier = sys.argv[1]
items = []
for d in sorted(glob.glob("seeded/*/meta.json")):
    m = json.load(open(d))
    if m.get("kept") and m.get("caught_by_check"):
        items.append((os.path.dirname(d), m["caught_by_check"]))
def run(it):
    d, chk = it
    p = subprocess.run(["selftest/try_patch.sh", os.path.join(d, "patch.diff"), tier, chk], capture_output=True, text=True)
    return d, chk, p.stdout
bad = 0
with cf.ThreadPoolExecutor(3) as ex:
    for d, chk, out in ex.map(run, items):
        ok = f"check {chk} rc=1" in out
        bad += not ok
        print(f"{os.path.basename(d):8s} {chk} {'caught' if ok else 'MISSED'} {'' if ok else out[-300:]}", flush=True)
print("seeded changes:", len(items), "missed:", bad)
sys.exit(1 if bad else 0)
PY
