#!/bin/sh
# selftest/try_patch.sh <patch.diff> <tier> <ID> [<ID> ...]
# Applies a seeded change to a scratch worktree of /repo (outside /repo and /verif), confirms the repository's own
# suite still passes there, runs the given checks against the scratch copy and reports which of them fire.
# Nothing is written to /verif/evidence or /verif/replays; the scratch copy is removed afterwards.
PATCH="$(realpath "$1")"; TIER="$2"; shift 2
HERE="$(cd "$(dirname "$0")/.." && pwd)"
S="$(mktemp -d /tmp/vfmut_XXXXXX)"; rmdir "$S"
git -C /repo worktree add -q --detach "$S" HEAD || exit 3
trap 'git -C /repo worktree remove --force "$S" >/dev/null 2>&1; rm -rf "$S" "$S.out"' EXIT
if ! git -C "$S" apply "$PATCH"; then echo "PATCH-DOES-NOT-APPLY"; exit 3; fi
T=$(cd "$S" && PYTHONPATH="$S/src" /venv/bin/python -m pytest -q -p no:cacheprovider 2>&1 | tail -1)
echo "suite-with-patch: $T"
for ID in "$@"; do
  OUT=$(cd "$HERE" && CMINX_VERIF_REPO="$S" VERIF_OUT="$S.out" ./check "$ID" --tier "$TIER" 2>&1)
  RC=$?
  echo "check $ID rc=$RC $(echo "$OUT" | grep -c '^VIOLATION') violation classes: $(echo "$OUT" | grep -A1 '^VIOLATION' | grep 'class=' | sed 's/ detail=.*//' | cut -c1-110 | head -4 | tr '\n' ';')"
done
