#!/bin/sh
# selftest/refresh_patches.sh -- after a new commit in /repo some kept patches may no longer apply verbatim; re-create
# them against the current HEAD with a three-way apply (the blobs they were made from are still in /repo's object store)
cd "$(dirname "$0")/.." || exit 1
for P in seeded/*/patch.diff selftest/mutants/*.diff; do
  if git -C /repo apply --check "$(realpath "$P")" 2>/dev/null; then continue; fi
  S="$(mktemp -d /tmp/vfref_XXXXXX)"; rmdir "$S"
  git -C /repo worktree add -q --detach "$S" HEAD || exit 3
  if git -C "$S" apply -3 "$(realpath "$P")" >/dev/null 2>&1 && [ -z "$(git -C "$S" diff --name-only --diff-filter=U)" ]; then
    git -C "$S" diff HEAD > "$P.new" && mv "$P.new" "$P" && echo "refreshed $P"
  else
    # last resort: context lines moved or changed next to the hunk -- let patch(1) place it with fuzz, keep the result
    # only if the sources still compile
    git -C "$S" reset -q --hard HEAD && git -C "$S" clean -fdq
    AP="$(realpath "$P")"
    if ( cd "$S" && patch -p1 -F3 -s --no-backup-if-mismatch < "$AP" >/dev/null 2>&1 ) && \
       ( cd "$S" && /venv/bin/python -m compileall -q src >/dev/null 2>&1 ); then
      find "$S" -name '*.orig' -delete; find "$S" -name '__pycache__' -type d -prune -exec rm -rf {} +
      git -C "$S" diff HEAD > "$P.new" && mv "$P.new" "$P" && echo "refreshed (fuzzy) $P"
    else
      echo "CANNOT REFRESH $P"
    fi
  fi
  git -C /repo worktree remove --force "$S" >/dev/null 2>&1; rm -rf "$S"
done
