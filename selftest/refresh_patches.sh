#!/bin/sh
# selftest/refresh_patches.sh -- after a new commit in /repo some kept patches may no longer apply verbatim; re-create
# them against the current HEAD with a three-way apply (the blobs they were made from are still in /repo's object store)
cd "$(dirname "$0")/.." || exit 1
for P in seeded/*/patch.diff selftest/mutants/*.diff; do
  if git -C /repo apply --check "$(realpath "$P")" 2>/dev/null; then continue; fi
  S="$(mktemp -d /tmp/vfref_XXXXXX)"; rmdir "$S"
  git -C /repo worktree add -q --detach "$S" HEAD || exit 3
  if git -C "$S" apply -3 "$(realpath "$P")" >/dev/null 2>&1 && [ -z "$(git -C "$S" diff --name-only --diff-filter=U)" ]; then
    git -C "$S" diff HEAD > "$P.new" && mv "$P.new" "$P" && echo "refreshed $P"
  else
    echo "CANNOT REFRESH $P"
  fi
  git -C /repo worktree remove --force "$S" >/dev/null 2>&1; rm -rf "$S"
done
