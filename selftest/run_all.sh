#!/bin/sh
# selftest/run_all.sh [tier]  -- every mutant of selftest/mutants against the checks it should break (4 at a time)
cd "$(dirname "$0")/.." || exit 1
TIER="${1:-quick}"
/venv/bin/python - "$TIER" <<'PY'
import json, subprocess, sys, concurrent.futures as cf
tier = sys.argv[1]
idx = json.load(open("selftest/mutants/index.json"))
def run(item):
    name, props = item
    p = subprocess.run(["selftest/try_patch.sh", f"selftest/mutants/{name}.diff", tier] + props, capture_output=True, text=True)
    return name, p.stdout
with cf.ThreadPoolExecutor(3) as ex:
    for name, out in ex.map(run, sorted(idx.items())):
        lines = out.strip().split("\n")
        suite = lines[0] if lines else "?"
        fired = [l.split()[1] for l in lines[1:] if " rc=1 " in l]
        silent = [l.split()[1] for l in lines[1:] if " rc=0 " in l]
        other = [l for l in lines[1:] if " rc=1 " not in l and " rc=0 " not in l]
        print(f"{name:45s} {suite[18:40]:24s} caught_by={fired} missed_by={silent} {other if other else ''}", flush=True)
PY
