#!/venv/bin/python
"""Writes selftest/mutants/<name>.diff for a backlog of realistic single-site changes (DESIGN.md §7) and
selftest/mutants/index.json mapping each to the properties it should break. Patches are produced against /repo HEAD."""
import difflib, json, os, subprocess
HERE = os.path.dirname(os.path.abspath(__file__))
M = [
 # name, file, old, new, properties expected to notice
 ("c01_strip_two_spaces", "src/cminx/aggregator.py", 'if cleaned_line and cleaned_line[0] == " ":\n                # Cleans optional singular space\n                cleaned_line = cleaned_line[1:]', 'if cleaned_line and cleaned_line[0] == " ":\n                # Cleans optional singular space\n                cleaned_line = cleaned_line[2:] if cleaned_line[:2] == "  " else cleaned_line[1:]', ["C01"]),
 ("c01_rstrip_every_line", "src/cminx/aggregator.py", 'cleaned_lines.append(cleaned_line)\n        cleaned_lines[-1]', 'cleaned_lines.append(cleaned_line.rstrip("#]"))\n        cleaned_lines[-1]', ["C01"]),
 ("c01_indent_from_first_line", "src/cminx/aggregator.py", "for i in range(0, len(lines[-1])):\n            if lines[-1][i] != \"#\":", "for i in range(0, len(lines[1 if len(lines) > 1 else -1])):\n            if lines[1 if len(lines) > 1 else -1][i] != \"#\":", ["C01", "C04"]),
 ("c02_set_follows_flag", "src/cminx/aggregator.py", 'elif command != "set" and f"process_{command}" in dir(self) and ctx not in self.consumed:\n                if self.settings.input.__dict__[f"include_undocumented_{command}"]:', 'elif f"process_{command}" in dir(self) and ctx not in self.consumed:\n                if self.settings.input.__dict__.get(f"include_undocumented_{command}", True):', ["C02", "C10"]),
 ("c02_awaiting_not_cleared", "src/cminx/aggregator.py", "                # Clear the var since we've processed the function/macro def we need\n                self.documented_awaiting_function_def = None\n", "                # Clear the var since we've processed the function/macro def we need\n                if command == \"function\":\n                    self.documented_awaiting_function_def = None\n", ["C02", "C09"]),
 ("c03_mark_bottom_of_stack", "src/cminx/aggregator.py", "last_element = self.definition_command_stack[-1]", "last_element = self.definition_command_stack[0]", ["C03"]),
 ("c03_strip_applies_to_name", "src/cminx/aggregator.py", 'function_name = def_params[0].getText()', 'function_name = re.sub(self.settings.input.function_parameter_name_strip_regex, "", def_params[0].getText())', ["C03"]),
 ("c03_no_pop_on_endmacro", "src/cminx/aggregator.py", 'elif command == "endfunction" or command == "endmacro":', 'elif command == "endfunction":', ["C03"]),
 ("c04_case_sensitive_end_class", "src/cminx/aggregator.py", 'elif command == "cpp_end_class":\n                self.documented_classes_stack.pop()', 'elif ctx.Identifier().getText() == "cpp_end_class":\n                self.documented_classes_stack.pop()', ["C04", "C02", "C09"]),
 ("c04_case_sensitive_cpa", "src/cminx/aggregator.py", 'elif command == "cmake_parse_arguments":', 'elif ctx.Identifier().getText() == "cmake_parse_arguments":', ["C04", "C03"]),
 ("c06_exit_replaced_by_return", "src/cminx/__init__.py", 'logger.error(f"File or directory \\"{input_path}\\" does not exist")\n        exit(-1)', 'logger.error(f"File or directory \\"{input_path}\\" does not exist")\n        return', ["C19"]),
 ("c06_no_syntax_error_count", "src/cminx/documenter.py", "if self.parser.getNumberOfSyntaxErrors() > 0:", "if self.parser.getNumberOfSyntaxErrors() > 1:", ["C06"]),
 ("c07_field_indent_off", "src/cminx/rstwriter.py", 'self.document.append(Field(field_name, field_text, get_indents(self.indent)))', 'self.document.append(Field(field_name, field_text, get_indents(max(self.indent - 1, 0)) if self.indent > 1 else get_indents(self.indent)))', ["C07", "C20", "C09"]),
 ("c08_option_flag_ignored", "src/cminx/aggregator.py", 'if self.settings.input.__dict__[f"include_undocumented_{command}"]:', 'if self.settings.input.__dict__[f"include_undocumented_{command}"] or command == "option":', ["C08"]),
 ("c08_member_ctor_flags_crossed", "src/cminx/aggregator.py", 'if self.settings.input.__dict__[f"include_undocumented_{command}"]:', 'if self.settings.input.__dict__[f"include_undocumented_{ {\'cpp_member\': \'cpp_constructor\', \'cpp_constructor\': \'cpp_member\'}.get(command, command)}"]:', ["C08"]),
 ("c09_params_from_index_1", "src/cminx/aggregator.py", "if len(params) > 2:\n                    param_names = params[2:]", "if len(params) > 2:\n                    param_names = params[1:] if params[1] != \"self\" else params[2:]", ["C09"]),
 ("c09_attach_to_outermost_class", "src/cminx/aggregator.py", "        clazz = self.documented_classes_stack[-1]\n        # Shouldn't document because class isn't supposed to be documented\n        if clazz is None:\n            return\n        parent_class = params[0]", "        clazz = self.documented_classes_stack[0]\n        # Shouldn't document because class isn't supposed to be documented\n        if clazz is None:\n            return\n        parent_class = params[0]", ["C09", "C02"]),
 ("c10_strip_all_quotes", "src/cminx/aggregator.py", "            if value[0] == '\"':\n                value = value[1:]\n            if value[-1] == '\"':\n                value = value[:-1]", "            value = value.strip('\"')", ["C10"]),
 ("c10_two_values_is_str", "src/cminx/aggregator.py", "if arg_len > 1:  # List", "if arg_len > 2:  # List", ["C10"]),
 ("c11_expectfail_substring", "src/cminx/aggregator.py", '            if param.upper() == "EXPECTFAIL":\n                expect_fail = True\n\n        test_doc = TestDocumentation', '            if "EXPECTFAIL" in param.upper():\n                expect_fail = True\n\n        test_doc = TestDocumentation', ["C11"]),
 ("c12_extension_regex_unanchored", "src/cminx/__init__.py", 'header_name = re.sub(r"\\.cmake$", "", header_name)', 'header_name = re.sub(r"\\.cmake", "", header_name)', ["C12"]),
 ("c12_heading_length_bytes", "src/cminx/rstwriter.py", "for _ in self.title:\n            heading += self.header_char", "for _ in self.title.encode(\"utf-8\"):\n            heading += self.header_char", ["C12", "C20"]),
 ("c13_uppercase_ext_skipped", "src/cminx/__init__.py", 'if file.lower().endswith(".cmake"):\n                    document_single_file', 'if file.endswith(".cmake"):\n                    document_single_file', ["C13", "C14"]),
 ("c14_subdirs_listed_when_not_recursive", "src/cminx/__init__.py", "                if recursive:\n                    for directory in subdirs:", "                if recursive or len(subdirs) == 1:\n                    for directory in subdirs:", ["C14"]),
 ("c15_prune_without_copy", "src/cminx/__init__.py", "for file in copy.copy(filenames):\n                if spec.match_file(os.path.join(root, file)):", "for file in filenames:\n                if spec.match_file(os.path.join(root, file)):", ["C15"]),
 ("c16_args_before_file", "src/cminx/__init__.py", "    if args.settings is not None:\n        # Additional settings file was defined on the command line\n        settings.set_file(os.path.abspath(args.settings))\n\n    settings.set_args(args, dots=True)\n", "    settings.set_args(args, dots=True)\n\n    if args.settings is not None:\n        # Additional settings file was defined on the command line\n        settings.set_file(os.path.abspath(args.settings))\n", ["C16"]),
 ("c16_union_lost", "src/cminx/__init__.py", 'settings["input"]["exclude_filters"].all_contents())', 'settings["input"]["exclude_filters"].get(list))', ["C16", "C15"]),
 ("c17_unsorted_files", "src/cminx/__init__.py", "            filenames = sorted(filenames)\n", "            filenames = list(filenames)\n", ["C17", "C18"]),
 ("c18_index_written_next_to_input", "src/cminx/__init__.py", '                index.write_to_file(\n                    os.path.join(\n                        os.path.join(\n                            output_path,\n                            rel_path),\n                        "index.rst"))', '                index.write_to_file(\n                    os.path.join(\n                        os.path.join(\n                            output_path if rel_path == "." else root,\n                            rel_path if rel_path == "." else ""),\n                        "index.rst"))', ["C18", "C13", "C14"]),
 ("c19_recursive_flag_always", "cmake/cminx.cmake", '    if(IS_DIRECTORY "${_cgd_dir}")\n        list(APPEND _cgr_cminx_options "-r")\n    endif()', '    list(APPEND _cgr_cminx_options "-r")', ["C19"]),
 ("c19_not_fatal", "cmake/cminx.cmake", "        COMMAND_ERROR_IS_FATAL ANY\n", "", ["C19"]),
 ("c20_title_not_reframed", "src/cminx/rstwriter.py", "        self.__title = new_title\n        self.document[0] = self.build_heading()", "        self.__title = new_title\n        self.document[0].title = new_title", ["C20", "C12"]),
 ("c20_kwargs_appended_on_render", "src/cminx/rstwriter.py", "        document_string = f\"{self.document[0]}\\n\"\n\n        for option in self.options:", "        document_string = f\"{self.document[0]}\\n\"\n        self.options.sort(key=lambda o: o.name)\n\n        for option in self.options:", ["C20"]),
 ("c05_unquoted_excludes_semicolon_escape", "src/cminx/parser/__init__.py", "class LexerErrorListener(ErrorListener):", "class LexerErrorListener(ErrorListener):\n    pass\n\n\nclass _Unused(ErrorListener):", ["C06"]),
]
idx = {}
for name, f, old, new, props in M:
    src = open(os.path.join("/repo", f)).read()
    if old not in src:
        print("STALE", name)
        continue
    dst = src.replace(old, new, 1)
    d = "".join(difflib.unified_diff(src.splitlines(True), dst.splitlines(True), "a/" + f, "b/" + f))
    open(os.path.join(HERE, "mutants", name + ".diff"), "w").write(d)
    idx[name] = props
json.dump(idx, open(os.path.join(HERE, "mutants", "index.json"), "w"), indent=1)
print(len(idx), "mutants written")
