#!/bin/sh
# selftest/eval_seed.sh <dir with patchK.diff demoK.py> <K> <tier> <ID> [<ID>...]
# Confirms a seeded change independently (applies, suite passes, demo fails with / passes without) and runs our checks on it.
D="$(realpath "$1")"; K="$2"; TIER="$3"; shift 3
# layouts: <dir>/patch<K>.diff + demo<K>.py (as delivered) or seeded/<id>-<k>/patch.diff + demo.py (as kept; pass K=-)
if [ -f "$D/patch.diff" ]; then P="$D/patch.diff"; DEMO="$D/demo.py"; else P="$D/patch$K.diff"; DEMO="$D/demo$K.py"; fi
S="$(mktemp -d /tmp/vfseed_XXXXXX)"; rmdir "$S"
git -C /repo worktree add -q --detach "$S" HEAD || exit 3
trap 'git -C /repo worktree remove --force "$S" >/dev/null 2>&1; rm -rf "$S"' EXIT
( cd "$S" && PYTHONPATH="$S/src" timeout 600 /venv/bin/python "$DEMO" >/dev/null 2>&1 ); echo "demo-without-patch rc=$?"
git -C "$S" apply "$P" || { echo PATCH-DOES-NOT-APPLY; exit 3; }
( cd "$S" && PYTHONPATH="$S/src" timeout 600 /venv/bin/python "$DEMO" >/dev/null 2>&1 ); echo "demo-with-patch rc=$?"
git -C "$S" checkout -q -- . 
"$(dirname "$0")/try_patch.sh" "$P" "$TIER" "$@"
