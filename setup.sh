#!/bin/sh
# Offline set-up: optional runtime-contract libraries beside the repository's interpreter.
# Nothing else needs building: checks import /repo/src directly on every run.
cd "$(dirname "$0")" || exit 1
mkdir -p evidence replays
if [ ! -d .deps/icontract ]; then
  /venv/bin/pip install -q --no-index --find-links /opt/veriftools/wheels --target .deps icontract >/dev/null 2>&1 \
    || echo "setup: icontract wheel not installable; checks fall back to in-house contracts"
fi
/venv/bin/python -c "import docutils, yaml, pathspec, antlr4; print('setup ok')"
